import Ktm.SpacePF
/-! C13: `Oracle.update_space` with the two new-entry flags, `ensure_active_values`, and the discovery loop of
    `BaseTuner._populate_initial_space` / `_activate_all_conditions` over a build program. The unseeded values
    `ensure_active_values` invents are inputs (`fills`, consumed in order). -/
namespace Space

/-- `_register(hp, overwrite=True)` on the oracle's container (no scopes open) -/
def registerOver (s : S) (h : HP) : S :=
  let s' := { s with hps := s.hps ++ [h] }
  if s'.isActive h then { s' with values := setVal s'.values h.name h.dflt } else s'

inductive UErr | notAllowed (names : List String)
  deriving DecidableEq, Repr

/-- `Oracle.update_space(hp)`: entries that do not exist yet (same name and conditions) are new; they are
    rejected, ignored or merged according to `allow_new_entries` / `tune_new_entries` -/
def updateSpace (allowNew tuneNew : Bool) (o : S) (hps : List HP) : Except UErr S :=
  let new := hps.filter (fun h => !(o.exists_ h.name h.conds))
  if !new.isEmpty && !allowNew then .error (.notAllowed (new.map (·.name)))
  else if !tuneNew then .ok o
  else .ok (new.foldl registerOver o)

/-- `ensure_active_values`: missing values of active entries are filled (from `fills`, in order), values of
    names none of whose entries is active are dropped -/
def ensureActive : List HP → S → List Val → S × List Val
  | [], s, fills => (s, fills)
  | h :: hs, s, fills =>
    if s.isActive h then
      match lookup s.values h.name with
      | some _ => ensureActive hs s fills
      | none => ensureActive hs { s with values := s.values ++ [(h.name, fills.headD h.dflt)] } fills.tail
    else if !s.isActiveName h.name then
      ensureActive hs { s with values := s.values.filter (fun p => p.1 != h.name) } fills
    else ensureActive hs s fills

/-- `get_space()`: a copy of the oracle's container: space and values, no open scopes, no recorded scopes -/
def copyOf (o : S) : S := { o with nameScopes := [], conds := [], activeScopes := [], inactiveScopes := [] }

structure Disc where
  o : S                              -- the oracle's hyperparameters
  never : List (List Cond)           -- scopes_never_active (may hold duplicates, as in the code)
  once : List (List Cond)            -- scopes_once_active
  fills : List Val
  builds : Nat
  err : Option UErr

def recordActive (d : Disc) (scopes : List (List Cond)) : Disc :=
  scopes.foldl (fun d c =>
    let d := if d.once.contains c then d else { d with once := d.once ++ [c] }
    if d.never.contains c then { d with never := d.never.erase c } else d) d

def recordInactive (d : Disc) (scopes : List (List Cond)) : Disc :=
  scopes.foldl (fun d c => if d.once.contains c then d else { d with never := d.never ++ [c] }) d

/-- the `while True` loop of `_activate_all_conditions`; `hp` is the container handed to the next build -/
def activateAll (allowNew tuneNew : Bool) (prog : List Stmt) : Nat → Disc → S → Disc
  | 0, d, _ => d
  | fuel + 1, d, hp =>
    let r := run 10000 hp prog none
    match updateSpace allowNew tuneNew d.o r.1.hps with
    | .error e => { d with err := some e, builds := d.builds + 1 }
    | .ok o' =>
      let d := { d with o := o', builds := d.builds + 1 }
      let d := recordInactive (recordActive d r.1.activeScopes) r.1.inactiveScopes
      match d.never with
      | [] => d
      | conds :: _ =>
        let hp0 := copyOf d.o
        let hp1 := { hp0 with values := conds.foldl (fun vs c => setVal vs c.name (c.vals.headD 0)) hp0.values }
        let e := ensureActive hp1.hps hp1 d.fills
        activateAll allowNew tuneNew prog fuel { d with fills := e.2 } e.1

/-- `_populate_initial_space` (no `declare_hyperparameters` override): start from the oracle's space -/
def populateInitial (allowNew tuneNew : Bool) (prog : List Stmt) (o : S) (fills : List Val) (fuel : Nat) : Disc :=
  activateAll allowNew tuneNew prog fuel { o := o, never := [], once := [], fills := fills, builds := 0, err := none } (copyOf o)

/-! ### decision logic of the new-entry flags -/

theorem updateSpace_rejects (tuneNew : Bool) (o : S) (hps : List HP) (h : ∃ x ∈ hps, o.exists_ x.name x.conds = false) :
    ∃ e, updateSpace false tuneNew o hps = .error e := by
  obtain ⟨x, hx, hnx⟩ := h
  have hne : (hps.filter (fun h => !(o.exists_ h.name h.conds))).isEmpty = false := by
    cases hf : hps.filter (fun h => !(o.exists_ h.name h.conds)) with
    | nil =>
      have : x ∈ hps.filter (fun h => !(o.exists_ h.name h.conds)) := List.mem_filter.mpr ⟨hx, by simp [hnx]⟩
      rw [hf] at this; cases this
    | cons a l => rfl
  simp only [updateSpace, hne, Bool.not_false, Bool.and_self, if_true]
  exact ⟨_, rfl⟩

theorem updateSpace_frozen (allowNew : Bool) (o : S) (hps : List HP) (o' : S)
    (h : updateSpace allowNew false o hps = .ok o') : o' = o := by
  unfold updateSpace at h
  simp only at h
  split at h
  · cases h
  · simp at h; exact h.symm

theorem foldl_registerOver_hps (l : List HP) (o : S) : (l.foldl registerOver o).hps = o.hps ++ l := by
  induction l generalizing o with
  | nil => simp
  | cons a l ih =>
    simp only [List.foldl_cons]
    rw [ih]
    have : (registerOver o a).hps = o.hps ++ [a] := by unfold registerOver; simp only; split <;> rfl
    rw [this]; simp

/-- with both flags on the new entries — exactly those not yet in the space — are appended in order -/
theorem updateSpace_adds (o : S) (hps : List HP) :
    ∃ o', updateSpace true true o hps = .ok o' ∧
      o'.hps = o.hps ++ hps.filter (fun h => !(o.exists_ h.name h.conds)) := by
  refine ⟨_, by simp [updateSpace], foldl_registerOver_hps _ _⟩

/-- `get`: the value when the name is active, one error when it exists but is inactive, a different one when unknown -/
theorem get_spec (s : S) (name : String) :
    (∀ v, lookup s.values (s.qualify name) = some v → s.get name = .ok v) ∧
    (lookup s.values (s.qualify name) = none → s.hps.any (·.name == s.qualify name) = true → s.get name = .error (.inactive (s.qualify name))) ∧
    (lookup s.values (s.qualify name) = none → s.hps.any (·.name == s.qualify name) = false → s.get name = .error (.unknown (s.qualify name))) := by
  refine ⟨fun v h => by simp [S.get, h], fun h1 h2 => by simp [S.get, h1, h2], fun h1 h2 => by simp [S.get, h1, h2]⟩

/-- `_retrieve`, stated outright: known and active ⇒ the assigned value; known and inactive ⇒ `None`;
    unknown ⇒ registered, and its value is the pre-populated one if any else the default (active), `None` (inactive) -/
theorem retrieve_spec (s : S) (name : String) (dflt : Val) :
    let h : HP := { name := s.qualify name, conds := s.conds, dflt := dflt }
    (s.exists_ h.name h.conds = true → s.isActive h = true → ∀ v, lookup s.values h.name = some v →
        s.retrieve name dflt = .ok (s, some v)) ∧
    (s.exists_ h.name h.conds = true → s.isActive h = false → s.retrieve name dflt = .ok (s, none)) ∧
    (s.exists_ h.name h.conds = false → s.conds.any (·.name == h.name) = false →
        ∃ s', s.retrieve name dflt = .ok (s', if s.isActive h then some ((lookup s.values h.name).getD dflt) else none) ∧
          s'.hps = s.hps ++ [h]) := by
  intro h
  refine ⟨?_, ?_, ?_⟩
  · intro he ha v hv
    simp only [S.retrieve, h] at he ha hv ⊢
    simp [he, ha, hv]
  · intro he ha
    simp only [S.retrieve, h] at he ha ⊢
    simp [he, ha]
  · intro he hc
    have hact : ∀ (s' : S), s'.values = s.values → s'.isActive h = s.isActive h := by
      intro s' hv; simp [S.isActive, hv]
    simp only [S.retrieve, h] at he hc ⊢
    simp only [he, Bool.false_eq_true, if_false, S.register, hc]
    have ha' := hact { s with hps := s.hps ++ [{ name := s.qualify name, conds := s.conds, dflt := dflt }] } rfl
    simp only [h] at ha'
    rw [ha']
    cases hact' : s.isActive { name := s.qualify name, conds := s.conds, dflt := dflt } with
    | false => simp only [Bool.false_eq_true, if_false]; exact ⟨_, rfl, rfl⟩
    | true =>
      simp only [if_true]
      cases hl : lookup s.values (s.qualify name) with
      | some v => simp only [Option.getD_some]; exact ⟨_, rfl, rfl⟩
      | none => simp only [Option.getD_none]; exact ⟨_, rfl, rfl⟩

end Space
#print axioms Space.retrieve_spec
