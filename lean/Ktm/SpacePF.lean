import Ktm.Space
namespace Space

/-- parents first: every condition of an entry names an entry registered earlier -/
def PF (hps : List HP) : Prop :=
  ∀ (pre : List HP) (h : HP) (post : List HP), hps = pre ++ h :: post → ∀ c ∈ h.conds, ∃ p ∈ pre, p.name = c.name

/-- every condition on the current scope stack names a registered entry -/
def SI (s : S) : Prop := ∀ c ∈ s.conds, ∃ p ∈ s.hps, p.name = c.name

theorem pf_append (hps : List HP) (h : HP) (hpf : PF hps) (hc : ∀ c ∈ h.conds, ∃ p ∈ hps, p.name = c.name) :
    PF (hps ++ [h]) := by
  intro pre g post heq c hcg
  -- either g is inside hps, or g = h and pre = hps
  rcases List.append_eq_append_iff.mp heq with ⟨a', h1, h2⟩ | ⟨c', h1, h2⟩
  · -- pre = hps ++ a' ; [h] = a' ++ g :: post
    cases a' with
    | nil =>
      simp at h2
      obtain ⟨hg, _⟩ := h2
      subst hg
      simp at h1; subst h1
      exact hc c hcg
    | cons x xs =>
      simp at h2
  · -- hps = pre ++ c' ; g :: post = c' ++ [h]
    cases c' with
    | nil =>
      simp at h2
      obtain ⟨hg, _⟩ := h2
      subst hg
      simp at h1; subst h1
      exact hc c hcg
    | cons x xs =>
      simp at h2
      obtain ⟨hx, hpost⟩ := h2
      subst hx
      exact hpf pre g xs h1 c hcg

structure Good (s : S) : Prop where
  pf : PF s.hps
  si : SI s

/-- `_retrieve` keeps the container good, never changes the scope stacks, and only appends to the space -/
theorem retrieve_good (s s' : S) (n : String) (d : Val) (v : Option Val) (g : Good s)
    (h : s.retrieve n d = .ok (s', v)) :
    Good s' ∧ s'.conds = s.conds ∧ s'.nameScopes = s.nameScopes ∧ ∃ ext, s'.hps = s.hps ++ ext := by
  unfold S.retrieve at h
  simp only at h
  split at h
  · split at h
    · split at h
      · cases h; exact ⟨g, rfl, rfl, [], by simp⟩
      · cases h
    · cases h; exact ⟨g, rfl, rfl, [], by simp⟩
  · unfold S.register at h
    simp only at h
    split at h
    · cases h
    · have hpf' : PF (s.hps ++ [{ name := s.qualify n, conds := s.conds, dflt := d }]) :=
        pf_append _ _ g.pf (fun c hc => g.si c hc)
      have hsi' : ∀ c ∈ s.conds, ∃ p ∈ s.hps ++ [{ name := s.qualify n, conds := s.conds, dflt := d }], p.name = c.name := by
        intro c hc
        obtain ⟨p, hp, hpn⟩ := g.si c hc
        exact ⟨p, List.mem_append.mpr (Or.inl hp), hpn⟩
      split at h
      · split at h
        · cases h; exact ⟨⟨hpf', hsi'⟩, rfl, rfl, _, rfl⟩
        · cases h; exact ⟨⟨hpf', hsi'⟩, rfl, rfl, _, rfl⟩
      · cases h; exact ⟨⟨hpf', hsi'⟩, rfl, rfl, _, rfl⟩

end Space
#print axioms Space.retrieve_good

namespace Space

theorem exists_mem (s : S) (n : String) (cs : List Cond) (h : s.exists_ n cs = true) : ∃ p ∈ s.hps, p.name = n := by
  simp only [S.exists_, List.any_eq_true, Bool.and_eq_true, beq_iff_eq] at h
  obtain ⟨p, hp, hn, _⟩ := h
  exact ⟨p, hp, hn⟩

/-- C13: running any build program keeps "parents before children", restores both scope stacks and
    only appends to the space -/
theorem run_good (fuel : Nat) : ∀ (s : S) (prog : List Stmt) (last : Option Val), Good s →
    Good (run fuel s prog last).1 ∧ (run fuel s prog last).1.conds = s.conds ∧
    (run fuel s prog last).1.nameScopes = s.nameScopes ∧ ∃ ext, (run fuel s prog last).1.hps = s.hps ++ ext := by
  induction fuel with
  | zero => intro s prog last g; simp only [run]; exact ⟨g, by simp, by simp, [], by simp⟩
  | succ fuel ih =>
    intro s prog last g
    cases prog with
    | nil => simp only [run]; exact ⟨g, by simp, by simp, [], by simp⟩
    | cons st rest =>
      cases st with
      | decl n d =>
        simp only [run]
        cases hr : s.retrieve n d with
        | error e => exact ⟨g, by simp, by simp, [], by simp⟩
        | ok r =>
          obtain ⟨s', v⟩ := r
          simp only
          obtain ⟨g', hc, hns, ext, hext⟩ := retrieve_good s s' n d v g hr
          obtain ⟨g2, hc2, hns2, ext2, hext2⟩ := ih s' rest v g'
          exact ⟨g2, hc2.trans hc, hns2.trans hns, ext ++ ext2, by rw [hext2, hext, List.append_assoc]⟩
      | get n =>
        simp only [run]
        exact ih s rest last g
      | nameScope n body =>
        simp only [run]
        have g0 : Good { s with nameScopes := s.nameScopes ++ [n] } := ⟨g.pf, g.si⟩
        obtain ⟨g1, hc1, _, ext1, hext1⟩ := ih { s with nameScopes := s.nameScopes ++ [n] } body none g0
        have g1' : Good { (run fuel { s with nameScopes := s.nameScopes ++ [n] } body none).1 with nameScopes := s.nameScopes } :=
          ⟨g1.pf, g1.si⟩
        obtain ⟨g2, hc2, hns2, ext2, hext2⟩ := ih _ rest last g1'
        refine ⟨g2, ?_, hns2, ext1 ++ ext2, ?_⟩
        · rw [hc2]; exact hc1
        · rw [hext2]; simp only; rw [hext1]; simp [List.append_assoc]
      | condScope parent vals isLazy body =>
        simp only [run]
        by_cases hex : s.exists_ (s.qualify parent) s.conds = true
        · simp only [hex, Bool.not_true, Bool.false_eq_true, if_false]
          obtain ⟨p, hp, hpn⟩ := exists_mem s _ _ hex
          -- the state on entering the scope is good whichever list records the scope
          have hsi0 : ∀ c ∈ s.conds ++ [{ name := s.qualify parent, vals := vals : Cond }], ∃ q ∈ s.hps, q.name = c.name := by
            intro c hc
            rcases List.mem_append.mp hc with hc | hc
            · exact g.si c hc
            · simp at hc; subst hc; exact ⟨p, hp, hpn⟩
          generalize hs0 : (if condActive s.values { name := s.qualify parent, vals := vals } = true then
              ({ s with conds := s.conds ++ [{ name := s.qualify parent, vals := vals }],
                        activeScopes := s.activeScopes ++ [s.conds ++ [{ name := s.qualify parent, vals := vals }]] } : S)
            else { s with conds := s.conds ++ [{ name := s.qualify parent, vals := vals }],
                          inactiveScopes := s.inactiveScopes ++ [s.conds ++ [{ name := s.qualify parent, vals := vals }]] }) = s0
          have hs0_hps : s0.hps = s.hps := by subst hs0; split <;> rfl
          have hs0_conds : s0.conds = s.conds ++ [{ name := s.qualify parent, vals := vals }] := by subst hs0; split <;> rfl
          have hs0_ns : s0.nameScopes = s.nameScopes := by subst hs0; split <;> rfl
          have g0 : Good s0 := ⟨by rw [hs0_hps]; exact g.pf, by intro c hc; rw [hs0_conds] at hc; rw [hs0_hps]; exact hsi0 c hc⟩
          -- body (entered or not)
          have hbody : ∀ (r1 : S × List Ev), (r1 = run fuel s0 body none ∨ r1 = (s0, [])) →
              Good r1.1 ∧ r1.1.nameScopes = s.nameScopes ∧ ∃ ext, r1.1.hps = s.hps ++ ext := by
            intro r1 hr1
            rcases hr1 with hr1 | hr1
            · subst hr1
              obtain ⟨g1, _, hns1, ext1, hext1⟩ := ih s0 body none g0
              exact ⟨g1, hns1.trans hs0_ns, ext1, by rw [hext1, hs0_hps]⟩
            · subst hr1; exact ⟨g0, hs0_ns, [], by simp [hs0_hps]⟩
          generalize hr1 : (if (!isLazy || match last with | some v => vals.contains v | none => false) = true
              then run fuel s0 body none else (s0, [])) = r1
          have hr1' : r1 = run fuel s0 body none ∨ r1 = (s0, []) := by
            subst hr1
            by_cases hen : (!isLazy || match last with | some v => vals.contains v | none => false) = true
            · exact Or.inl (by rw [if_pos hen])
            · exact Or.inr (by rw [if_neg hen])
          obtain ⟨g1, hns1, ext1, hext1⟩ := hbody r1 hr1'
          have g1' : Good { r1.1 with conds := s.conds } := by
            refine ⟨g1.pf, ?_⟩
            intro c hc
            obtain ⟨q, hq, hqn⟩ := g.si c hc
            exact ⟨q, by show q ∈ r1.1.hps; rw [hext1]; exact List.mem_append.mpr (Or.inl hq), hqn⟩
          obtain ⟨g2, hc2, hns2, ext2, hext2⟩ := ih _ rest last g1'
          refine ⟨g2, hc2, ?_, ext1 ++ ext2, ?_⟩
          · rw [hns2]; exact hns1
          · rw [hext2]; simp only; rw [hext1]; simp [List.append_assoc]
        · have hex' : s.exists_ (s.qualify parent) s.conds = false := by simpa using hex
          simp only [hex', Bool.not_false, if_true]
          exact ⟨g, by simp, by simp, [], by simp⟩

theorem good_empty : Good empty := ⟨by intro pre h post he; simp [empty] at he, by intro c hc; simp [empty] at hc⟩

end Space
#print axioms Space.run_good
