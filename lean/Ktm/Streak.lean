import Ktm.Core
/-! C03: the scanning loop `_check_consecutive_failures` finds a run of `k` FAILED iff one exists. -/
namespace Core

/-- `k` consecutive FAILED somewhere in the list, stated without the scanning loop -/
def HasRun (k : Nat) (l : List Status) : Prop :=
  ∃ pre suf, l = pre ++ List.replicate k Status.failed ++ suf

/-- generalised: with `c` FAILED already counted immediately before `l` -/
theorem streakFrom_iff (k : Nat) (hk : 0 < k) (c : Nat) (hc : c < k) (l : List Status) :
    streakFrom k c l = true ↔
      (∃ suf, k - c ≤ l.length ∧ l = List.replicate (k - c) Status.failed ++ suf) ∨ HasRun k l := by
  induction l generalizing c with
  | nil =>
    simp only [streakFrom, Bool.false_eq_true, false_iff, not_or]
    constructor
    · rintro ⟨suf, hlen, _⟩; simp at hlen; omega
    · rintro ⟨pre, suf, h⟩
      have := congrArg List.length h
      simp at this; omega
  | cons s rest ih =>
    simp only [streakFrom]
    by_cases hs : s = .failed
    · subst hs
      simp only [if_true]
      by_cases hck : c + 1 = k
      · simp only [hck, if_true, true_iff]
        left
        refine ⟨rest, by simp; omega, ?_⟩
        have : k - c = 1 := by omega
        simp [this]
      · simp only [hck, if_false]
        rw [ih (c + 1) (by omega)]
        constructor
        · rintro (⟨suf, hlen, h⟩ | ⟨pre, suf, h⟩)
          · left
            refine ⟨suf, by simp; omega, ?_⟩
            have : k - c = (k - (c + 1)) + 1 := by omega
            rw [this, List.replicate_succ, List.cons_append, ← h]
          · right; exact ⟨.failed :: pre, suf, by simp [h]⟩
        · rintro (⟨suf, hlen, h⟩ | ⟨pre, suf, h⟩)
          · left
            have hkc : k - c = (k - (c + 1)) + 1 := by omega
            rw [hkc, List.replicate_succ, List.cons_append] at h
            have h' := List.cons.inj h
            exact ⟨suf, by simp at hlen; omega, h'.2⟩
          · cases pre with
            | nil =>
              -- the run starts at this element: the rest starts with k-1 ≥ k-(c+1) FAILED
              left
              have hk1 : k = (k - 1) + 1 := by omega
              rw [hk1, List.replicate_succ] at h
              simp only [List.nil_append, List.cons_append] at h
              have h' := (List.cons.inj h).2
              have hsplit : k - 1 = (k - (c + 1)) + c := by omega
              refine ⟨List.replicate c Status.failed ++ suf, ?_, ?_⟩
              · rw [h']; simp; omega
              · rw [h', hsplit, ← List.replicate_append_replicate, List.append_assoc]
            | cons p ps =>
              right
              simp only [List.cons_append] at h
              exact ⟨ps, suf, (List.cons.inj h).2⟩
    · simp only [hs, if_false]
      have hk0 : ¬ (0 = k) := by omega
      simp only [hk0, if_false]
      rw [ih 0 hk]
      constructor
      · rintro (⟨suf, hlen, h⟩ | ⟨pre, suf, h⟩)
        · right; exact ⟨[s], suf, by simp [h]⟩
        · right; exact ⟨s :: pre, suf, by simp [h]⟩
      · rintro (⟨suf, hlen, h⟩ | ⟨pre, suf, h⟩)
        · exfalso
          have : k - c = (k - c - 1) + 1 := by omega
          rw [this, List.replicate_succ, List.cons_append] at h
          exact hs (List.cons.inj h).1
        · cases pre with
          | nil =>
            exfalso
            have hk1 : k = (k - 1) + 1 := by omega
            rw [hk1, List.replicate_succ] at h
            simp only [List.nil_append, List.cons_append] at h
            exact hs (List.cons.inj h).1
          | cons p ps =>
            simp only [List.cons_append] at h
            have h' := (List.cons.inj h).2
            right; exact ⟨ps, suf, h'⟩

theorem hasStreak_iff (k : Nat) (hk : 0 < k) (l : List Status) : hasStreak k l = true ↔ HasRun k l := by
  unfold hasStreak
  rw [streakFrom_iff k hk 0 hk]
  constructor
  · rintro (⟨suf, _, h⟩ | h)
    · exact ⟨[], suf, by simpa using h⟩
    · exact h
  · intro h; exact Or.inr h

end Core
#print axioms Core.hasStreak_iff
