import Ktm.CoreProps
import Ktm.Grid
import Ktm.Random
/-! C04, second clause — "a search that maximises an objective issues exactly the same trials and ranking as one that
    minimises its negation", as a theorem about whole searches.

    `negO` negates every reported value and every score of a state, `negOp` negates the value a request reports.
    Two algorithm records are *mirror images* (`Mirror algMax algMin`) when their scoring rules mirror each other
    (`scoreOf` of the negated reports is the negated `scoreOf`), and they choose the next configuration alike on
    mirrored states. Then for EVERY request list — any number of tuners, any interleaving, any outcomes — the two
    searches answer every request identically (same ids, same values, same IDLE / STOPPED / abort) and their states are
    mirror images of each other after every request (`mirror_run`).

    Random search and grid search never look at scores when they choose a configuration, so they are mirror images of
    themselves under any pair of mirrored scoring rules (`random_mirror`, `grid_mirror`). Hyperband does look at
    scores, through its promotion winner only, which is proved symmetric on its own (`Props.C04.hyperband_winner_symmetric`);
    the whole-search statement for Hyperband and the Bayesian oracle is decided by the `symmetry` suite. -/
namespace Symmetry
open Core
variable {V A : Type}

def negR (r : Option Int) : Option Int := r.map (fun x => -x)

def negTrial (t : Trial V) : Trial V := { t with score := t.score.map (fun x => -x), reports := t.reports.map negR }

def negO (o : Oracle V A) : Oracle V A := { o with trials := o.trials.map negTrial }

def negOp : Op → Op
  | .update id r => .update id (negR r)
  | op => op

structure Mirror (algMax algMin : Alg V A) : Prop where
  score : ∀ l, algMin.scoreOf (l.map negR) = (algMax.scoreOf l).map (fun x => -x)
  pop : ∀ (o : Oracle V A) (c : Nat), algMin.populate (negO o) c = algMax.populate o c
  onEnd : ∀ (a : A) (i : Nat), algMin.onEnd a i = algMax.onEnd a i

theorem negO_getElem (o : Oracle V A) (i : Nat) : (negO o).trials[i]? = (o.trials[i]?).map negTrial := by
  simp [negO, List.getElem?_map]

theorem negO_setTrial (ts : List (Trial V)) (i : Nat) (f g : Trial V → Trial V) (h : ∀ t, negTrial (f t) = g (negTrial t)) :
    (setTrial ts i f).map negTrial = setTrial (ts.map negTrial) i g := by
  apply List.ext_getElem?
  intro j
  simp only [List.getElem?_map, getElem?_setTrial]
  split
  · cases ts[j]? <;> simp [h]
  · rfl

theorem statusOf_neg (ts : List (Trial V)) (i : Nat) : statusOf (ts.map negTrial) i = statusOf ts i := by
  simp only [statusOf, List.getElem?_map]
  cases ts[i]? <;> rfl

/-- one request: same answer, mirrored state -/
theorem mirror_step (algMax algMin : Alg V A) (m : Mirror algMax algMin) (o : Oracle V A) (op : Op) :
    step algMin (negO o) (negOp op) = (negO (step algMax o op).1, (step algMax o op).2) := by
  cases op with
  | create tuner c =>
    simp only [negOp, step]
    unfold create
    have hholds : holds (negO o) tuner = holds o tuner := rfl
    rw [hholds]
    cases hh : holds o tuner with
    | some id =>
      simp only [negO_getElem]
      cases ht : o.trials[id]? with
      | none => rfl
      | some t => rfl
    | none =>
      simp only []
      have hrq : (negO o).retryQ.getLast? = o.retryQ.getLast? := rfl
      rw [hrq]
      cases hq : o.retryQ.getLast? with
      | some id =>
        simp only []
        have hg : ({ negO o with tunerIds := addTuner (negO o).tunerIds tuner } : Oracle V A).trials[id]? = (o.trials[id]?).map negTrial := by
          simp [negO, List.getElem?_map]
        rw [hg]
        cases ht : o.trials[id]? with
        | none => rfl
        | some t =>
          simp only [Option.map_some]
          have hset := negO_setTrial o.trials id (fun t => { t with status := .running }) (fun t => { t with status := .running })
            (fun t => rfl)
          simp only [negO, negTrial] at hset ⊢
          rw [← hset]
      | none =>
        simp only []
        have hb : budgetReached ({ negO o with tunerIds := addTuner (negO o).tunerIds tuner } : Oracle V A)
            = budgetReached ({ o with tunerIds := addTuner o.tunerIds tuner } : Oracle V A) := by
          simp [budgetReached, negO]
        rw [hb]
        split
        · rfl
        · have hp := m.pop { o with tunerIds := addTuner o.tunerIds tuner } c
          have heq : ({ negO o with tunerIds := addTuner (negO o).tunerIds tuner } : Oracle V A)
              = negO { o with tunerIds := addTuner o.tunerIds tuner } := rfl
          rw [heq, hp]
          cases algMax.populate { o with tunerIds := addTuner o.tunerIds tuner } c with
          | mk a pop =>
            cases pop with
            | run v => simp [negO, negTrial, negR]
            | idle => rfl
            | stop => rfl
  | update id r =>
    simp only [negOp, step]
    unfold update
    simp only [negO_getElem]
    cases ht : o.trials[id]? with
    | none => rfl
    | some t =>
      simp only [Option.map_some]
      have hset := negO_setTrial o.trials id (fun t => { t with reports := t.reports ++ [r] })
        (fun t => { t with reports := t.reports ++ [negR r] }) (fun t => by simp [negTrial])
      simp only [negO] at hset ⊢
      rw [← hset]
  | endT id oc =>
    simp only [negOp, step]
    unfold endT
    simp only [negO_getElem]
    cases ht : o.trials[id]? with
    | none => rfl
    | some t =>
      simp only [Option.map_some]
      have hon : isOngoing (negO o) id = isOngoing o id := rfl
      rw [hon]
      cases hio : isOngoing o id with
      | false => rfl
      | true =>
        simp only [Bool.not_true, Bool.false_eq_true, if_false]
        -- the decision mirrors: same status, same retry flag, negated score
        have hdec : endDecision algMin (negO o).maxRetries (negTrial t) oc =
            { endDecision algMax o.maxRetries t oc with sc := (endDecision algMax o.maxRetries t oc).sc.map (fun x => -x) } := by
          have hmr : (negO o).maxRetries = o.maxRetries := rfl
          rw [hmr]
          unfold endDecision
          have hsc : algMin.scoreOf (negTrial t).reports = (algMax.scoreOf t.reports).map (fun x => -x) := m.score t.reports
          have hruns : (negTrial t).runs = t.runs := rfl
          simp only [hsc, hruns]
          cases oc <;> cases algMax.scoreOf t.reports <;> simp <;> split <;> rfl
        rw [hdec]
        simp only []
        have hruns : (negTrial t).runs = t.runs := rfl
        cases hr : (endDecision algMax o.maxRetries t oc).retry with
        | true =>
          simp only [if_true]
          have hset := negO_setTrial o.trials id
            (fun t' => { t' with status := (endDecision algMax o.maxRetries t oc).st, runs := t.runs + 1,
                                 score := (endDecision algMax o.maxRetries t oc).sc, reports := [] })
            (fun t' => { t' with status := (endDecision algMax o.maxRetries t oc).st, runs := t.runs + 1,
                                 score := (endDecision algMax o.maxRetries t oc).sc.map (fun x => -x), reports := [] })
            (fun t' => by simp [negTrial])
          simp only [negO, hruns, m.onEnd] at hset ⊢
          rw [← hset]
        | false =>
          simp only [Bool.false_eq_true, if_false]
          have hset := negO_setTrial o.trials id
            (fun t' => { t' with status := (endDecision algMax o.maxRetries t oc).st, runs := t.runs + 1,
                                 score := (endDecision algMax o.maxRetries t oc).sc })
            (fun t' => { t' with status := (endDecision algMax o.maxRetries t oc).st, runs := t.runs + 1,
                                 score := (endDecision algMax o.maxRetries t oc).sc.map (fun x => -x) })
            (fun t' => by simp [negTrial])
          have hstat : ∀ ts' : List (Trial V), (o.endOrder ++ [id]).map (statusOf (ts'.map negTrial)) = (o.endOrder ++ [id]).map (statusOf ts') :=
            fun ts' => List.map_congr_left (fun i _ => statusOf_neg ts' i)
          simp only [negO, hruns, m.onEnd] at hset ⊢
          rw [← hset, hstat]
          split <;> rfl

/-- **whole searches mirror each other**: for every request list the maximising search and the minimising search of
    the negated reports end in mirrored states … -/
theorem mirror_run (algMax algMin : Alg V A) (m : Mirror algMax algMin) (ops : List Op) : ∀ (o : Oracle V A),
    run algMin (negO o) (ops.map negOp) = negO (run algMax o ops) := by
  induction ops with
  | nil => intro o; rfl
  | cons op ops ih =>
    intro o
    simp only [List.map_cons, run]
    rw [mirror_step algMax algMin m o op]
    simp only []
    cases (step algMax o op).2 with
    | abort => rfl
    | _ => exact ih _

/-- … having answered every single request identically: same trial ids, same values, same IDLE / STOPPED / abort -/
def outputs (alg : Alg V A) : Oracle V A → List Op → List (Out V)
  | _, [] => []
  | o, op :: ops =>
    let r := step alg o op
    r.2 :: (match r.2 with | .abort => [] | _ => outputs alg r.1 ops)

theorem mirror_outputs (algMax algMin : Alg V A) (m : Mirror algMax algMin) (ops : List Op) : ∀ (o : Oracle V A),
    outputs algMin (negO o) (ops.map negOp) = outputs algMax o ops := by
  induction ops with
  | nil => intro o; rfl
  | cons op ops ih =>
    intro o
    simp only [List.map_cons, outputs]
    rw [mirror_step algMax algMin m o op]
    simp only []
    cases (step algMax o op).2 with
    | abort => rfl
    | _ => simp only [ih]

/-! ### the scoring rules mirror each other; random and grid search are score-blind -/

/-- best reported value in the given direction (`none` = nothing but NaN) -/
def bestOf (minimize : Bool) : List (Option Int) → Option Int
  | [] => none
  | r :: rs =>
    match r, bestOf minimize rs with
    | none, b => b
    | some x, none => some x
    | some x, some y => some (if minimize then (if x ≤ y then x else y) else (if y ≤ x then x else y))

theorem bestOf_mirror (l : List (Option Int)) : bestOf true (l.map negR) = (bestOf false l).map (fun x => -x) := by
  induction l with
  | nil => rfl
  | cons r rs ih =>
    simp only [List.map_cons, bestOf, ih]
    cases r with
    | none => simp [negR]
    | some x =>
      cases hb : bestOf false rs with
      | none => simp [negR]
      | some y =>
        simp only [negR, Option.map_some, Bool.false_eq_true, if_false, if_true]
        by_cases h : y ≤ x
        · have : -x ≤ -y := by omega
          simp [h, this]
        · have : ¬ (-x ≤ -y) := by omega
          simp [h, this]

section randomSearch
variable {W : Type} [DecidableEq W]

def randomAlg (minimize : Bool) (cands : Nat → List W) : Alg W (RandomAlg.St W) :=
  { RandomAlg.alg cands with scoreOf := bestOf minimize }

/-- random search never looks at a score -/
theorem random_mirror (cands : Nat → List W) : Mirror (randomAlg false cands) (randomAlg true cands) :=
  ⟨bestOf_mirror, fun _ _ => rfl, fun _ _ => rfl⟩

end randomSearch

def gridAlg (minimize : Bool) : Alg GridSucc.Env Grid.St := { Grid.alg with scoreOf := bestOf minimize }

theorem grid_valsOf_neg (o : Grid.O) (i : Nat) : Grid.valsOf (negO o) i = Grid.valsOf o i := by
  simp only [Grid.valsOf, negO, List.getElem?_map]
  cases o.trials[i]? <;> rfl

theorem grid_scanQueue_neg (o : Grid.O) (s : Grid.St) (q : List Nat) : Grid.scanQueue (negO o) s q = Grid.scanQueue o s q := by
  induction q with
  | nil => rfl
  | cons i q ih =>
    simp only [Grid.scanQueue, grid_valsOf_neg, ih]

/-- grid search never looks at a score either -/
theorem grid_mirror : Mirror (gridAlg false) (gridAlg true) := by
  refine ⟨bestOf_mirror, ?_, fun _ _ => rfl⟩
  intro o c
  show Grid.populate (negO o) c = Grid.populate o c
  unfold Grid.populate
  have hlen : (negO o).trials.length = o.trials.length := by simp [negO]
  have halg : (negO o).alg = o.alg := rfl
  have hong : (negO o).ongoing = o.ongoing := rfl
  simp only [hlen, halg, hong, grid_scanQueue_neg]

/-- non-vacuity: two tuners, a retry and a tie; maximising s = (3, 5, 5) and minimising −s give the same answers and
    mirrored scores -/
example :
    let ops : List Op := [.create 0 0, .create 1 0, .update 0 (some 3), .endT 0 .invalid, .create 0 0, .update 0 (some 5),
                          .endT 0 .completed, .update 1 (some 5), .endT 1 .completed, .create 1 0]
    let cands : Nat → List Nat := fun _ => [7, 8, 9]
    let oMax := run (randomAlg false cands) (init ⟨[], 5⟩ (some 3) 1 3) ops
    let oMin := run (randomAlg true cands) (init ⟨[], 5⟩ (some 3) 1 3) (ops.map negOp)
    oMax.trials.map (·.score) = [some 5, some 5, none] ∧ oMin.trials.map (·.score) = [some (-5), some (-5), none] ∧
    oMax.trials.map (·.vals) = oMin.trials.map (·.vals) ∧ oMax.endOrder = oMin.endOrder := by
  refine ⟨?_, ?_, ?_, ?_⟩ <;> decide

end Symmetry
#print axioms Symmetry.mirror_run
#print axioms Symmetry.mirror_outputs
#print axioms Symmetry.grid_mirror
