import Ktm.CoreProps
import Ktm.Grid
import Ktm.Random
import Ktm.Hyperband
/-! C04, second clause — "a search that maximises an objective issues exactly the same trials and ranking as one that
    minimises its negation", as a theorem about whole searches.

    `negO` negates every reported value and every score of a state, `negOp` negates the value a request reports.
    Two algorithm records are *mirror images* (`Mirror algMax algMin`) when their scoring rules mirror each other
    (`scoreOf` of the negated reports is the negated `scoreOf`), and they choose the next configuration alike on
    mirrored states. Then for EVERY request list — any number of tuners, any interleaving, any outcomes — the two
    searches answer every request identically (same ids, same values, same IDLE / STOPPED / abort) and their states are
    mirror images of each other after every request (`mirror_run`).

    Random search and grid search never look at scores when they choose a configuration, so they are mirror images of
    themselves under any pair of mirrored scoring rules (`random_mirror`, `grid_mirror`). Hyperband does look at
    scores, through its promotion winner only, which is proved symmetric on its own (`Props.C04.hyperband_winner_symmetric`);
    the whole-search statement for Hyperband and the Bayesian oracle is decided by the `symmetry` suite. -/
namespace Symmetry
open Core
variable {V A : Type}

def negR (r : Option Int) : Option Int := r.map (fun x => -x)

def negTrial (t : Trial V) : Trial V := { t with score := t.score.map (fun x => -x), reports := t.reports.map negR }

/-- mirror image of a state: every report and score negated, the algorithm state mapped by `f` (the identity for score-blind
    algorithms; for Hyperband it flips the direction flag the state carries) -/
def negOf (f : A → A) (o : Oracle V A) : Oracle V A := { o with trials := o.trials.map negTrial, alg := f o.alg }

abbrev negO (o : Oracle V A) : Oracle V A := negOf id o

def negOp : Op → Op
  | .update id r => .update id (negR r)
  | op => op

structure MirrorF (f : A → A) (algMax algMin : Alg V A) : Prop where
  score : ∀ l, algMin.scoreOf (l.map negR) = (algMax.scoreOf l).map (fun x => -x)
  pop : ∀ (o : Oracle V A) (c : Nat), algMin.populate (negOf f o) c = (f (algMax.populate o c).1, (algMax.populate o c).2)
  onEnd : ∀ (a : A) (i : Nat), algMin.onEnd (f a) i = f (algMax.onEnd a i)

/-- the score-blind case: same algorithm state on both sides -/
abbrev Mirror (algMax algMin : Alg V A) : Prop := MirrorF id algMax algMin

theorem negO_getElem (f : A → A) (o : Oracle V A) (i : Nat) : (negOf f o).trials[i]? = (o.trials[i]?).map negTrial := by
  simp [negOf, List.getElem?_map]

theorem negO_setTrial (ts : List (Trial V)) (i : Nat) (f g : Trial V → Trial V) (h : ∀ t, negTrial (f t) = g (negTrial t)) :
    (setTrial ts i f).map negTrial = setTrial (ts.map negTrial) i g := by
  apply List.ext_getElem?
  intro j
  simp only [List.getElem?_map, getElem?_setTrial]
  split
  · cases ts[j]? <;> simp [h]
  · rfl

theorem statusOf_neg (ts : List (Trial V)) (i : Nat) : statusOf (ts.map negTrial) i = statusOf ts i := by
  simp only [statusOf, List.getElem?_map]
  cases ts[i]? <;> rfl

/-- one request: same answer, mirrored state -/
theorem mirror_step (f : A → A) (algMax algMin : Alg V A) (m : MirrorF f algMax algMin) (o : Oracle V A) (op : Op) :
    step algMin (negOf f o) (negOp op) = (negOf f (step algMax o op).1, (step algMax o op).2) := by
  cases op with
  | create tuner c =>
    simp only [negOp, step]
    unfold create
    have hholds : holds (negOf f o) tuner = holds o tuner := rfl
    rw [hholds]
    cases hh : holds o tuner with
    | some id =>
      simp only [negO_getElem]
      cases ht : o.trials[id]? with
      | none => rfl
      | some t => rfl
    | none =>
      simp only []
      have hrq : (negOf f o).retryQ.getLast? = o.retryQ.getLast? := rfl
      rw [hrq]
      cases hq : o.retryQ.getLast? with
      | some id =>
        simp only []
        have hg : ({ negOf f o with tunerIds := addTuner (negOf f o).tunerIds tuner } : Oracle V A).trials[id]? = (o.trials[id]?).map negTrial := by
          simp [negOf, List.getElem?_map]
        rw [hg]
        cases ht : o.trials[id]? with
        | none => rfl
        | some t =>
          simp only [Option.map_some]
          have hset := negO_setTrial o.trials id (fun t => { t with status := .running }) (fun t => { t with status := .running })
            (fun t => rfl)
          simp only [negOf, negTrial] at hset ⊢
          rw [← hset]
      | none =>
        simp only []
        have hb : budgetReached ({ negOf f o with tunerIds := addTuner (negOf f o).tunerIds tuner } : Oracle V A)
            = budgetReached ({ o with tunerIds := addTuner o.tunerIds tuner } : Oracle V A) := by
          simp [budgetReached, negOf]
        rw [hb]
        split
        · rfl
        · have hp := m.pop { o with tunerIds := addTuner o.tunerIds tuner } c
          have heq : ({ negOf f o with tunerIds := addTuner (negOf f o).tunerIds tuner } : Oracle V A)
              = negOf f { o with tunerIds := addTuner o.tunerIds tuner } := rfl
          rw [heq, hp]
          cases algMax.populate { o with tunerIds := addTuner o.tunerIds tuner } c with
          | mk a pop =>
            cases pop with
            | run v => simp [negOf, negTrial, negR]
            | idle => rfl
            | stop => rfl
  | update id r =>
    simp only [negOp, step]
    unfold update
    simp only [negO_getElem]
    cases ht : o.trials[id]? with
    | none => rfl
    | some t =>
      simp only [Option.map_some]
      have hset := negO_setTrial o.trials id (fun t => { t with reports := t.reports ++ [r] })
        (fun t => { t with reports := t.reports ++ [negR r] }) (fun t => by simp [negTrial])
      simp only [negOf] at hset ⊢
      rw [← hset]
  | endT id oc =>
    simp only [negOp, step]
    unfold endT
    simp only [negO_getElem]
    cases ht : o.trials[id]? with
    | none => rfl
    | some t =>
      simp only [Option.map_some]
      have hon : isOngoing (negOf f o) id = isOngoing o id := rfl
      rw [hon]
      cases hio : isOngoing o id with
      | false => rfl
      | true =>
        simp only [Bool.not_true, Bool.false_eq_true, if_false]
        -- the decision mirrors: same status, same retry flag, negated score
        have hdec : endDecision algMin (negOf f o).maxRetries (negTrial t) oc =
            { endDecision algMax o.maxRetries t oc with sc := (endDecision algMax o.maxRetries t oc).sc.map (fun x => -x) } := by
          have hmr : (negOf f o).maxRetries = o.maxRetries := rfl
          rw [hmr]
          unfold endDecision
          have hsc : algMin.scoreOf (negTrial t).reports = (algMax.scoreOf t.reports).map (fun x => -x) := m.score t.reports
          have hruns : (negTrial t).runs = t.runs := rfl
          simp only [hsc, hruns]
          cases oc <;> cases algMax.scoreOf t.reports <;> simp <;> split <;> rfl
        rw [hdec]
        simp only []
        have hruns : (negTrial t).runs = t.runs := rfl
        cases hr : (endDecision algMax o.maxRetries t oc).retry with
        | true =>
          simp only [if_true]
          have hset := negO_setTrial o.trials id
            (fun t' => { t' with status := (endDecision algMax o.maxRetries t oc).st, runs := t.runs + 1,
                                 score := (endDecision algMax o.maxRetries t oc).sc, reports := [] })
            (fun t' => { t' with status := (endDecision algMax o.maxRetries t oc).st, runs := t.runs + 1,
                                 score := (endDecision algMax o.maxRetries t oc).sc.map (fun x => -x), reports := [] })
            (fun t' => by simp [negTrial])
          simp only [negOf, hruns, m.onEnd] at hset ⊢
          rw [← hset]
        | false =>
          simp only [Bool.false_eq_true, if_false]
          have hset := negO_setTrial o.trials id
            (fun t' => { t' with status := (endDecision algMax o.maxRetries t oc).st, runs := t.runs + 1,
                                 score := (endDecision algMax o.maxRetries t oc).sc })
            (fun t' => { t' with status := (endDecision algMax o.maxRetries t oc).st, runs := t.runs + 1,
                                 score := (endDecision algMax o.maxRetries t oc).sc.map (fun x => -x) })
            (fun t' => by simp [negTrial])
          have hstat : ∀ ts' : List (Trial V), (o.endOrder ++ [id]).map (statusOf (ts'.map negTrial)) = (o.endOrder ++ [id]).map (statusOf ts') :=
            fun ts' => List.map_congr_left (fun i _ => statusOf_neg ts' i)
          simp only [negOf, hruns, m.onEnd] at hset ⊢
          rw [← hset, hstat]
          split <;> rfl

/-- **whole searches mirror each other**: for every request list the maximising search and the minimising search of
    the negated reports end in mirrored states … -/
theorem mirror_run (f : A → A) (algMax algMin : Alg V A) (m : MirrorF f algMax algMin) (ops : List Op) : ∀ (o : Oracle V A),
    run algMin (negOf f o) (ops.map negOp) = negOf f (run algMax o ops) := by
  induction ops with
  | nil => intro o; rfl
  | cons op ops ih =>
    intro o
    simp only [List.map_cons, run]
    rw [mirror_step f algMax algMin m o op]
    simp only []
    cases (step algMax o op).2 with
    | abort => rfl
    | _ => exact ih _

/-- … having answered every single request identically: same trial ids, same values, same IDLE / STOPPED / abort -/
def outputs (alg : Alg V A) : Oracle V A → List Op → List (Out V)
  | _, [] => []
  | o, op :: ops =>
    let r := step alg o op
    r.2 :: (match r.2 with | .abort => [] | _ => outputs alg r.1 ops)

theorem mirror_outputs (f : A → A) (algMax algMin : Alg V A) (m : MirrorF f algMax algMin) (ops : List Op) : ∀ (o : Oracle V A),
    outputs algMin (negOf f o) (ops.map negOp) = outputs algMax o ops := by
  induction ops with
  | nil => intro o; rfl
  | cons op ops ih =>
    intro o
    simp only [List.map_cons, outputs]
    rw [mirror_step f algMax algMin m o op]
    simp only []
    cases (step algMax o op).2 with
    | abort => rfl
    | _ => simp only [ih]

/-! ### the scoring rules mirror each other; random and grid search are score-blind -/

/-- best reported value in the given direction (`none` = nothing but NaN) -/
def bestOf (minimize : Bool) : List (Option Int) → Option Int
  | [] => none
  | r :: rs =>
    match r, bestOf minimize rs with
    | none, b => b
    | some x, none => some x
    | some x, some y => some (if minimize then (if x ≤ y then x else y) else (if y ≤ x then x else y))

theorem bestOf_mirror (l : List (Option Int)) : bestOf true (l.map negR) = (bestOf false l).map (fun x => -x) := by
  induction l with
  | nil => rfl
  | cons r rs ih =>
    simp only [List.map_cons, bestOf, ih]
    cases r with
    | none => simp [negR]
    | some x =>
      cases hb : bestOf false rs with
      | none => simp [negR]
      | some y =>
        simp only [negR, Option.map_some, Bool.false_eq_true, if_false, if_true]
        by_cases h : y ≤ x
        · have : -x ≤ -y := by omega
          simp [h, this]
        · have : ¬ (-x ≤ -y) := by omega
          simp [h, this]

section randomSearch
variable {W : Type} [DecidableEq W]

def randomAlg (minimize : Bool) (cands : Nat → List W) : Alg W (RandomAlg.St W) :=
  { RandomAlg.alg cands with scoreOf := bestOf minimize }

/-- random search never looks at a score -/
theorem random_mirror (cands : Nat → List W) : Mirror (randomAlg false cands) (randomAlg true cands) :=
  ⟨bestOf_mirror, fun _ _ => rfl, fun _ _ => rfl⟩

end randomSearch

def gridAlg (minimize : Bool) : Alg GridSucc.Env Grid.St := { Grid.alg with scoreOf := bestOf minimize }

theorem grid_valsOf_neg (o : Grid.O) (i : Nat) : Grid.valsOf (negO o) i = Grid.valsOf o i := by
  simp only [Grid.valsOf, negOf, List.getElem?_map]
  cases o.trials[i]? <;> rfl

theorem grid_scanQueue_neg (o : Grid.O) (s : Grid.St) (q : List Nat) : Grid.scanQueue (negO o) s q = Grid.scanQueue o s q := by
  induction q with
  | nil => rfl
  | cons i q ih =>
    simp only [Grid.scanQueue, grid_valsOf_neg, ih]

/-- grid search never looks at a score either -/
theorem grid_mirror : Mirror (gridAlg false) (gridAlg true) := by
  refine ⟨bestOf_mirror, ?_, fun _ _ => rfl⟩
  intro o c
  show Grid.populate (negO o) c = Grid.populate o c
  unfold Grid.populate
  have hlen : (negO o).trials.length = o.trials.length := by simp [negOf]
  have halg : (negO o).alg = o.alg := rfl
  have hong : (negO o).ongoing = o.ongoing := rfl
  simp only [hlen, halg, hong, grid_scanQueue_neg]

/-! ### Hyperband: the direction flag lives in the algorithm state -/

def flipDir (s : HB.St) : HB.St := { s with cfg := { s.cfg with minimize := !s.cfg.minimize } }

def negPair (p : Nat × Int) : Nat × Int := (p.1, -p.2)

theorem hb_bestOf_neg (m : Bool) (l : List (Nat × Int)) : HB.bestOf (!m) (l.map negPair) = (HB.bestOf m l).map negPair := by
  induction l with
  | nil => rfl
  | cons x xs ih =>
    simp only [HB.bestOf, List.map_cons, ih]
    cases h : HB.bestOf m xs with
    | none => rfl
    | some y =>
      simp only [Option.map_some, HB.better, negPair]
      cases m with
      | false =>
        simp only [Bool.not_false, if_true, Bool.false_eq_true, if_false]
        by_cases hlt : x.2 < y.2
        · have : -y.2 < -x.2 := by omega
          simp [hlt, this, negPair]
        · have : ¬ -y.2 < -x.2 := by omega
          simp [hlt, this, negPair]
      | true =>
        simp only [Bool.not_true, if_true, Bool.false_eq_true, if_false]
        by_cases hlt : y.2 < x.2
        · have : -x.2 < -y.2 := by omega
          simp [hlt, this, negPair]
        · have : ¬ -x.2 < -y.2 := by omega
          simp [hlt, this, negPair]

theorem hb_candOf_neg (f : HB.St → HB.St) (o : HB.O) (cur : List HB.Entry) (e : HB.Entry) :
    HB.candOf (negOf f o) cur e = (HB.candOf o cur e).map negPair := by
  unfold HB.candOf
  split
  · rfl
  · simp only [negO_getElem]
    cases o.trials[e.id]? with
    | none => rfl
    | some t =>
      simp only [Option.map_some, negTrial]
      split
      · cases t.score <;> rfl
      · rfl

theorem hb_candidates_neg (f : HB.St → HB.St) (o : HB.O) (prev cur : List HB.Entry) :
    HB.candidates (negOf f o) prev cur = (HB.candidates o prev cur).map negPair := by
  unfold HB.candidates
  induction prev with
  | nil => rfl
  | cons e es ih =>
    simp only [List.filterMap_cons, hb_candOf_neg]
    cases HB.candOf o cur e with
    | none => simpa using ih
    | some p => simpa using ih

theorem hb_tryPromote_neg (o : HB.O) (cfg : HB.Cfg) (b : HB.Bracket) : ∀ (rs : List (List HB.Entry)) (r : Nat),
    HB.tryPromote (negOf flipDir o) { cfg with minimize := !cfg.minimize } b r rs = HB.tryPromote o cfg b r rs := by
  intro rs
  induction rs with
  | nil => intro r; rfl
  | cons prev rest ih =>
    intro r
    cases rest with
    | nil => rfl
    | cons cur rest' =>
      simp only [HB.tryPromote, hb_candidates_neg, List.length_map, hb_bestOf_neg]
      split
      · cases HB.bestOf cfg.minimize (HB.candidates o prev cur) with
        | none => simpa using ih (r + 1)
        | some p => rfl
      · exact ih (r + 1)

theorem hb_scan_neg (o : HB.O) (cfg : HB.Cfg) : ∀ (brs : List HB.Bracket) (i : Nat),
    HB.scan (negOf flipDir o) { cfg with minimize := !cfg.minimize } i brs = HB.scan o cfg i brs := by
  intro brs
  induction brs with
  | nil => intro i; rfl
  | cons b bs ih =>
    intro i
    simp only [HB.scan]
    cases b.rounds with
    | nil => exact ih (i + 1)
    | cons r0 rest =>
      simp only []
      split
      · rfl
      · rw [hb_tryPromote_neg]
        cases HB.tryPromote o cfg b 0 (r0 :: rest) with
        | none => exact ih (i + 1)
        | some p => rfl

/-- Hyperband is its own mirror image once the direction flag it carries is flipped: the promotion winner is the only
    place where scores are read (`hb_bestOf_neg`) -/
theorem hyperband_mirror : MirrorF flipDir HB.alg HB.alg := by
  refine ⟨?_, ?_, fun _ _ => rfl⟩
  · intro l
    show (l.map negR).getLast?.join = (l.getLast?.join).map (fun x => -x)
    rw [List.getLast?_map]
    cases l.getLast? with
    | none => rfl
    | some r => cases r <;> rfl
  · intro o c
    show HB.populate (negOf flipDir o) c = (flipDir (HB.populate o c).1, (HB.populate o c).2)
    unfold HB.populate
    have hcomp : ∀ (cfg : HB.Cfg) (b : HB.Bracket), HB.completeBracket { cfg with minimize := !cfg.minimize } b = HB.completeBracket cfg b :=
      fun _ _ => rfl
    have hcfg : (negOf flipDir o).alg.cfg = { o.alg.cfg with minimize := !o.alg.cfg.minimize } := rfl
    have hbr : (negOf flipDir o).alg.brackets = o.alg.brackets := rfl
    have hong : (negOf flipDir o).ongoing = o.ongoing := rfl
    have hlen : (negOf flipDir o).trials.length = o.trials.length := by simp [negOf]
    simp only [hcfg, hbr, hcomp, hb_scan_neg]
    cases hs : HB.scan o o.alg.cfg 0 (o.alg.brackets.filter (fun b => !HB.completeBracket o.alg.cfg b)) with
    | random bi =>
      simp only []
      cases (o.alg.brackets.filter (fun b => !HB.completeBracket o.alg.cfg b))[bi]? with
      | none => rfl
      | some b =>
        simp only [HB.randomIn]
        cases c with
        | zero => simp only [hong]; rfl
        | succ k => simp only [hlen]; rfl
    | promote bi r pid =>
      simp only [negO_getElem]
      cases (o.alg.brackets.filter (fun b => !HB.completeBracket o.alg.cfg b))[bi]? with
      | none => rfl
      | some b =>
        cases o.trials[pid]? with
        | none => rfl
        | some pt => simp only [Option.map_some, hlen]; rfl
    | none =>
      simp only []
      have hcb : (negOf flipDir o).alg.currentBracket = o.alg.currentBracket := rfl
      have hci : (negOf flipDir o).alg.currentIteration = o.alg.currentIteration := rfl
      simp only [hcb, hci]
      split
      · simp only [hong]; rfl
      · simp only [HB.randomIn]
        cases c with
        | zero => simp only [hong]; rfl
        | succ k => simp only [hlen]; rfl

/-- non-vacuity: two tuners, a retry and a tie; maximising s = (3, 5, 5) and minimising −s give the same answers and
    mirrored scores -/
example :
    let ops : List Op := [.create 0 0, .create 1 0, .update 0 (some 3), .endT 0 .invalid, .create 0 0, .update 0 (some 5),
                          .endT 0 .completed, .update 1 (some 5), .endT 1 .completed, .create 1 0]
    let cands : Nat → List Nat := fun _ => [7, 8, 9]
    let oMax := run (randomAlg false cands) (init ⟨[], 5⟩ (some 3) 1 3) ops
    let oMin := run (randomAlg true cands) (init ⟨[], 5⟩ (some 3) 1 3) (ops.map negOp)
    oMax.trials.map (·.score) = [some 5, some 5, none] ∧ oMin.trials.map (·.score) = [some (-5), some (-5), none] ∧
    oMax.trials.map (·.vals) = oMin.trials.map (·.vals) ∧ oMax.endOrder = oMin.endOrder := by
  refine ⟨?_, ?_, ?_, ?_⟩ <;> decide

end Symmetry
#print axioms Symmetry.mirror_run
#print axioms Symmetry.mirror_outputs
#print axioms Symmetry.grid_mirror
#print axioms Symmetry.hyperband_mirror
