/-! C17: small-step model of the repaired `synchronized` wrapper (per-oracle lock looked up under a guard —
    modelled as an atomic lookup —, owner table, release in `finally`), any number of threads, one oracle.
    The wrapped method is a non-atomic read-modify-write of the oracle state (`body1` reads, `body2`
    writes `f t` of what it read), so that lost updates would be visible. -/
namespace Sync

inductive Pc
  | idle                       -- between calls
  | decided (need : Bool)      -- has read THREADS[oracle]
  | acquired                   -- holds the lock, owner not yet written
  | body1 (need : Bool)        -- inside the wrapped function, before reading the state
  | body2 (need : Bool)        -- has read the state, about to write
  | after (need raised : Bool) -- function returned or raised
  | cleared (raised : Bool)    -- owner cleared, lock not yet released
  deriving DecidableEq, Repr

structure G where
  held : Option Nat            -- thread holding the oracle's lock
  owner : Option Nat           -- THREADS[oracle]
  pc : Nat → Pc
  st : Nat                     -- the oracle's state
  loc : Nat → Nat              -- per thread: the state it read
  log : List Nat               -- threads whose write has happened, oldest first

def setPc (g : G) (t : Nat) (p : Pc) : G := { g with pc := fun u => if u = t then p else g.pc u }

variable (f : Nat → Nat → Nat)

/-- one step of thread `t`; `raise` is the environment's choice whether the body raises (before writing).
    `none` = the thread is blocked (lock not free) -/
def step (g : G) (t : Nat) (raise : Bool) : Option G :=
  match g.pc t with
  | .idle => some (setPc g t (.decided (decide (g.owner ≠ some t))))
  | .decided true => if g.held = none then some (setPc { g with held := some t } t .acquired) else none
  | .decided false => some (setPc g t (.body1 false))
  | .acquired => some (setPc { g with owner := some t } t (.body1 true))
  | .body1 need =>
    if raise then some (setPc g t (.after need true))
    else some (setPc { g with loc := fun u => if u = t then g.st else g.loc u } t (.body2 need))
  | .body2 need => some (setPc { g with st := f t (g.loc t), log := g.log ++ [t] } t (.after need false))
  | .after true r => some (setPc { g with owner := none } t (.cleared r))
  | .after false _ => some (setPc g t .idle)
  | .cleared _ => some (setPc { g with held := none } t .idle)

def inCS : Pc → Bool
  | .acquired | .body1 true | .body2 true | .after true _ | .cleared _ => true
  | _ => false

def ownsName : Pc → Bool
  | .body1 true | .body2 true | .after true _ => true
  | _ => false

theorem owns_inCS (p : Pc) (h : ownsName p = true) : inCS p = true := by
  cases p with
  | body1 n => cases n <;> simp_all [ownsName, inCS]
  | body2 n => cases n <;> simp_all [ownsName, inCS]
  | after n r => cases n <;> simp_all [ownsName, inCS]
  | _ => simp [ownsName] at h

def seqState (s0 : Nat) (log : List Nat) : Nat := log.foldl (fun s t => f t s) s0

structure Inv (s0 : Nat) (g : G) : Prop where
  held_cs : ∀ t, g.held = some t ↔ inCS (g.pc t) = true
  owner_ok : ∀ t, g.owner = some t → ownsName (g.pc t) = true
  body_owner : ∀ t, ownsName (g.pc t) = true → g.owner = some t
  no_reent : ∀ t, g.pc t ≠ .decided false ∧ g.pc t ≠ .body1 false ∧ g.pc t ≠ .body2 false ∧ ∀ r, g.pc t ≠ .after false r
  lin : g.st = seqState f s0 g.log
  loc_ok : ∀ t, g.pc t = .body2 true → g.loc t = g.st

def init (s0 : Nat) : G := { held := none, owner := none, pc := fun _ => .idle, st := s0, loc := fun _ => 0, log := [] }

theorem inv_init (s0 : Nat) : Inv f s0 (init s0) := by
  constructor <;> simp [init, inCS, ownsName, seqState]

/-- mutual exclusion is a consequence of the invariant: two threads in the critical section coincide -/
theorem mutex_of_inv (s0 : Nat) (g : G) (h : Inv f s0 g) (t u : Nat) (ht : inCS (g.pc t) = true) (hu : inCS (g.pc u) = true) : t = u := by
  have h1 := (h.held_cs t).mpr ht
  have h2 := (h.held_cs u).mpr hu
  rw [h1] at h2; exact Option.some.inj h2

theorem inv_step (s0 : Nat) (g g' : G) (t : Nat) (r : Bool) (h : Inv f s0 g) (hs : step f g t r = some g') : Inv f s0 g' := by
  unfold step at hs
  have hcs := h.held_cs
  have hown := h.owner_ok
  have hbo := h.body_owner
  have hnr := h.no_reent
  have hlin := h.lin
  have hloc := h.loc_ok
  -- a thread in the critical section holds the lock; any other thread in the critical section contradicts it
  have excl : ∀ u, inCS (g.pc t) = true → u ≠ t → inCS (g.pc u) = false := by
    intro u ht hu
    cases hc : inCS (g.pc u) with
    | false => rfl
    | true => exact absurd (mutex_of_inv f s0 g h u t hc ht) hu
  cases hpc : g.pc t with
  | idle =>
    simp only [hpc] at hs
    have hno : g.owner ≠ some t := by
      intro ho; have := hown t ho; rw [hpc] at this; simp [ownsName] at this
    simp only [hno, ne_eq, not_false_eq_true, decide_true, Option.some.injEq] at hs
    subst hs
    refine ⟨?_, ?_, ?_, ?_, hlin, ?_⟩
    · intro u
      by_cases hu : u = t
      · subst hu; simp only [setPc, if_true, inCS]
        have := hcs u; rw [hpc] at this; simp [inCS] at this; simp [this]
      · simp only [setPc, hu, if_false]; exact hcs u
    · intro u ho
      by_cases hu : u = t
      · subst hu; exact absurd ho hno
      · simp only [setPc, hu, if_false]; exact hown u ho
    · intro u hu'
      by_cases hu : u = t
      · subst hu; simp [setPc, ownsName] at hu'
      · simp only [setPc, hu, if_false] at hu'; exact hbo u hu'
    · intro u
      by_cases hu : u = t
      · subst hu; simp [setPc]
      · simp only [setPc, hu, if_false]; exact hnr u
    · intro u hu'
      by_cases hu : u = t
      · subst hu; simp [setPc] at hu'
      · simp only [setPc, hu, if_false] at hu'; exact hloc u hu'
  | decided need =>
    cases need with
    | false => exact absurd hpc (hnr t).1
    | true =>
      simp only [hpc] at hs
      split at hs
      · rename_i hfree
        simp only [Option.some.injEq] at hs; subst hs
        refine ⟨?_, ?_, ?_, ?_, hlin, ?_⟩
        · intro u
          by_cases hu : u = t
          · subst hu; simp [setPc, inCS]
          · simp only [setPc, hu, if_false]
            constructor
            · intro hh; exact absurd (Option.some.inj hh) (fun e => hu e.symm)
            · intro hc; have := (hcs u).mpr hc; rw [hfree] at this; cases this
        · intro u ho
          by_cases hu : u = t
          · subst hu; have := hown u ho; rw [hpc] at this; simp [ownsName] at this
          · simp only [setPc, hu, if_false]; exact hown u ho
        · intro u hu'
          by_cases hu : u = t
          · subst hu; simp [setPc, ownsName] at hu'
          · simp only [setPc, hu, if_false] at hu'; exact hbo u hu'
        · intro u
          by_cases hu : u = t
          · subst hu; simp [setPc]
          · simp only [setPc, hu, if_false]; exact hnr u
        · intro u hu'
          by_cases hu : u = t
          · subst hu; simp [setPc] at hu'
          · simp only [setPc, hu, if_false] at hu'; exact hloc u hu'
      · cases hs
  | acquired =>
    simp only [hpc, Option.some.injEq] at hs; subst hs
    have hin : inCS (g.pc t) = true := by rw [hpc]; rfl
    have hheld : g.held = some t := (hcs t).mpr hin
    refine ⟨?_, ?_, ?_, ?_, hlin, ?_⟩
    · intro u
      by_cases hu : u = t
      · subst hu; simp [setPc, inCS, hheld]
      · simp only [setPc, hu, if_false]; exact hcs u
    · intro u ho
      have hut : t = u := Option.some.inj ho
      subst hut; simp [setPc, ownsName]
    · intro u hu'
      by_cases hu : u = t
      · subst hu; rfl
      · simp only [setPc, hu, if_false] at hu'
        have h1 := excl u hin hu
        have h2 : inCS (g.pc u) = true := owns_inCS _ hu'
        rw [h1] at h2; cases h2
    · intro u
      by_cases hu : u = t
      · subst hu; simp [setPc]
      · simp only [setPc, hu, if_false]; exact hnr u
    · intro u hu'
      by_cases hu : u = t
      · subst hu; simp [setPc] at hu'
      · simp only [setPc, hu, if_false] at hu'; exact hloc u hu'
  | body1 need =>
    cases need with
    | false => exact absurd hpc (hnr t).2.1
    | true =>
      have hin : inCS (g.pc t) = true := by rw [hpc]; rfl
      have hheld : g.held = some t := (hcs t).mpr hin
      have hownt : g.owner = some t := hbo t (by rw [hpc]; rfl)
      simp only [hpc] at hs
      cases r with
      | true =>
        simp only [if_true, Option.some.injEq] at hs; subst hs
        refine ⟨?_, ?_, ?_, ?_, hlin, ?_⟩
        · intro u
          by_cases hu : u = t
          · subst hu; simp [setPc, inCS, hheld]
          · simp only [setPc, hu, if_false]; exact hcs u
        · intro u ho
          by_cases hu : u = t
          · subst hu; simp [setPc, ownsName]
          · simp only [setPc, hu, if_false]; exact hown u ho
        · intro u hu'
          by_cases hu : u = t
          · subst hu; exact hownt
          · simp only [setPc, hu, if_false] at hu'; exact hbo u hu'
        · intro u
          by_cases hu : u = t
          · subst hu; simp [setPc]
          · simp only [setPc, hu, if_false]; exact hnr u
        · intro u hu'
          by_cases hu : u = t
          · subst hu; simp [setPc] at hu'
          · simp only [setPc, hu, if_false] at hu'; exact hloc u hu'
      | false =>
        simp only [Bool.false_eq_true, if_false, Option.some.injEq] at hs; subst hs
        refine ⟨?_, ?_, ?_, ?_, hlin, ?_⟩
        · intro u
          by_cases hu : u = t
          · subst hu; simp [setPc, inCS, hheld]
          · simp only [setPc, hu, if_false]; exact hcs u
        · intro u ho
          by_cases hu : u = t
          · subst hu; simp [setPc, ownsName]
          · simp only [setPc, hu, if_false]; exact hown u ho
        · intro u hu'
          by_cases hu : u = t
          · subst hu; exact hownt
          · simp only [setPc, hu, if_false] at hu'; exact hbo u hu'
        · intro u
          by_cases hu : u = t
          · subst hu; simp [setPc]
          · simp only [setPc, hu, if_false]; exact hnr u
        · intro u hu'
          by_cases hu : u = t
          · subst hu; simp [setPc]
          · simp only [setPc, hu, if_false] at hu' ⊢
            have h1 := excl u hin hu
            rw [hu'] at h1; simp [inCS] at h1
  | body2 need =>
    cases need with
    | false => exact absurd hpc (hnr t).2.2.1
    | true =>
      have hin : inCS (g.pc t) = true := by rw [hpc]; rfl
      have hheld : g.held = some t := (hcs t).mpr hin
      have hownt : g.owner = some t := hbo t (by rw [hpc]; rfl)
      have hl : g.loc t = g.st := hloc t hpc
      simp only [hpc, Option.some.injEq] at hs; subst hs
      refine ⟨?_, ?_, ?_, ?_, ?_, ?_⟩
      · intro u
        by_cases hu : u = t
        · subst hu; simp [setPc, inCS, hheld]
        · simp only [setPc, hu, if_false]; exact hcs u
      · intro u ho
        by_cases hu : u = t
        · subst hu; simp [setPc, ownsName]
        · simp only [setPc, hu, if_false]; exact hown u ho
      · intro u hu'
        by_cases hu : u = t
        · subst hu; exact hownt
        · simp only [setPc, hu, if_false] at hu'; exact hbo u hu'
      · intro u
        by_cases hu : u = t
        · subst hu; simp [setPc]
        · simp only [setPc, hu, if_false]; exact hnr u
      · simp only [setPc, seqState, List.foldl_append, List.foldl_cons, List.foldl_nil]
        rw [hl, hlin]; rfl
      · intro u hu'
        by_cases hu : u = t
        · subst hu; simp [setPc] at hu'
        · simp only [setPc, hu, if_false] at hu'
          have h1 := excl u hin hu
          rw [hu'] at h1; simp [inCS] at h1
  | after need raised =>
    cases need with
    | false => exact absurd hpc ((hnr t).2.2.2 raised)
    | true =>
      have hin : inCS (g.pc t) = true := by rw [hpc]; rfl
      have hheld : g.held = some t := (hcs t).mpr hin
      simp only [hpc, Option.some.injEq] at hs; subst hs
      refine ⟨?_, ?_, ?_, ?_, hlin, ?_⟩
      · intro u
        by_cases hu : u = t
        · subst hu; simp [setPc, inCS, hheld]
        · simp only [setPc, hu, if_false]; exact hcs u
      · intro u ho; cases ho
      · intro u hu'
        by_cases hu : u = t
        · subst hu; simp [setPc, ownsName] at hu'
        · simp only [setPc, hu, if_false] at hu'
          have h1 := excl u hin hu
          have h2 : inCS (g.pc u) = true := owns_inCS _ hu'
          rw [h1] at h2; cases h2
      · intro u
        by_cases hu : u = t
        · subst hu; simp [setPc]
        · simp only [setPc, hu, if_false]; exact hnr u
      · intro u hu'
        by_cases hu : u = t
        · subst hu; simp [setPc] at hu'
        · simp only [setPc, hu, if_false] at hu'; exact hloc u hu'
  | cleared raised =>
    have hin : inCS (g.pc t) = true := by rw [hpc]; rfl
    have hheld : g.held = some t := (hcs t).mpr hin
    simp only [hpc, Option.some.injEq] at hs; subst hs
    refine ⟨?_, ?_, ?_, ?_, hlin, ?_⟩
    · intro u
      by_cases hu : u = t
      · subst hu; simp [setPc, inCS]
      · simp only [setPc, hu, if_false]
        constructor
        · intro hc; cases hc
        · intro hc; have := (hcs u).mpr hc; rw [hheld] at this; exact absurd (Option.some.inj this) (fun e => hu e.symm)
    · intro u ho
      by_cases hu : u = t
      · subst hu; have := hown u ho; rw [hpc] at this; simp [ownsName] at this
      · simp only [setPc, hu, if_false]; exact hown u ho
    · intro u hu'
      by_cases hu : u = t
      · subst hu; simp [setPc, ownsName] at hu'
      · simp only [setPc, hu, if_false] at hu'; exact hbo u hu'
    · intro u
      by_cases hu : u = t
      · subst hu; simp [setPc]
      · simp only [setPc, hu, if_false]; exact hnr u
    · intro u hu'
      by_cases hu : u = t
      · subst hu; simp [setPc] at hu'
      · simp only [setPc, hu, if_false] at hu'; exact hloc u hu'

/-- run a schedule: a list of (thread, raise?) choices; blocked steps are skipped -/
def run (g : G) : List (Nat × Bool) → G
  | [] => g
  | (t, r) :: rest => match step f g t r with
    | some g' => run g' rest
    | none => run g rest

theorem inv_run (s0 : Nat) (g : G) (h : Inv f s0 g) (sched : List (Nat × Bool)) : Inv f s0 (run f g sched) := by
  induction sched generalizing g with
  | nil => exact h
  | cons x xs ih =>
    obtain ⟨t, r⟩ := x
    simp only [run]
    cases hs : step f g t r with
    | some g' => exact ih g' (inv_step f s0 g g' t r h hs)
    | none => exact ih g h

/-- C17 (repaired wrapper): for every number of threads and every schedule, at most one thread is inside
    the critical section -/
theorem mutual_exclusion (s0 : Nat) (sched : List (Nat × Bool)) (t u : Nat)
    (ht : inCS ((run f (init s0) sched).pc t) = true) (hu : inCS ((run f (init s0) sched).pc u) = true) : t = u :=
  mutex_of_inv f s0 _ (inv_run f s0 (init s0) (inv_init f s0) sched) t u ht hu

/-- a thread whose call has ended — normally or by an exception — holds nothing: the lock is free and
    no owner is recorded whenever every thread is between calls -/
theorem no_wedge (s0 : Nat) (sched : List (Nat × Bool)) (hidle : ∀ t, (run f (init s0) sched).pc t = .idle) :
    (run f (init s0) sched).held = none ∧ (run f (init s0) sched).owner = none := by
  have h := inv_run f s0 (init s0) (inv_init f s0) sched
  constructor
  · cases hh : (run f (init s0) sched).held with
    | none => rfl
    | some t => have := (h.held_cs t).mp hh; rw [hidle t] at this; simp [inCS] at this
  · cases ho : (run f (init s0) sched).owner with
    | none => rfl
    | some t => have := h.owner_ok t ho; rw [hidle t] at this; simp [ownsName] at this

/-- linearizability: although every call reads and writes the oracle state in two separate steps, the
    state is always the result of applying the calls one after the other, in the order of their writes
    (no lost update), for every schedule -/
theorem linearizable (s0 : Nat) (sched : List (Nat × Bool)) :
    (run f (init s0) sched).st = seqState f s0 (run f (init s0) sched).log :=
  (inv_run f s0 (init s0) (inv_init f s0) sched).lin

/-- re-entrancy: while a thread is inside the wrapped function the owner table names it, so a nested
    synchronized call from the same thread decides `need_acquire = False` and cannot block on its own lock -/
theorem reentrant_no_acquire (s0 : Nat) (sched : List (Nat × Bool)) (t : Nat)
    (hin : ownsName ((run f (init s0) sched).pc t) = true) :
    decide ((run f (init s0) sched).owner ≠ some t) = false := by
  have := (inv_run f s0 (init s0) (inv_init f s0) sched).body_owner t hin
  simp [this]

/-- progress: whenever the lock is free a thread that wants it is not blocked; a thread inside its call is
    never blocked (only `acquire` can block) -/
theorem only_acquire_blocks (g : G) (t : Nat) (r : Bool) (hb : step f g t r = none) :
    g.pc t = .decided true ∧ g.held ≠ none := by
  unfold step at hb
  cases hpc : g.pc t with
  | decided need =>
    cases need with
    | true => simp only [hpc] at hb; split at hb; · cases hb
              · rename_i h; exact ⟨rfl, h⟩
    | false => simp [hpc] at hb
  | body1 need => simp only [hpc] at hb; split at hb <;> cases hb
  | after need raised => cases need <;> simp [hpc] at hb
  | _ => simp [hpc] at hb

end Sync
#print axioms Sync.mutual_exclusion
#print axioms Sync.linearizable
