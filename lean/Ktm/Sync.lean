/-! C17 prototype: small-step model of the repaired `synchronized` wrapper (lock looked up under a guard,
    release in `finally`), any number of threads, one oracle; mutual exclusion and no wedging. -/
namespace Sync

inductive Pc
  | idle                       -- between calls
  | decided (need : Bool)      -- has read THREADS[oracle]
  | acquired                   -- holds the lock, owner not yet written
  | body (need : Bool)         -- inside the wrapped function
  | after (need raised : Bool) -- function returned or raised
  | cleared (raised : Bool)    -- owner cleared, lock not yet released
  deriving DecidableEq, Repr

structure G where
  held : Option Nat            -- thread holding the oracle's lock
  owner : Option Nat           -- THREADS[oracle]
  pc : Nat → Pc

def setPc (g : G) (t : Nat) (p : Pc) : G := { g with pc := fun u => if u = t then p else g.pc u }

/-- one step of thread `t`; `raise` is the environment's choice whether the body raises.
    `none` = the thread is blocked (lock not free) -/
def step (g : G) (t : Nat) (raise : Bool) : Option G :=
  match g.pc t with
  | .idle => some (setPc g t (.decided (decide (g.owner ≠ some t))))
  | .decided true => if g.held = none then some (setPc { g with held := some t } t .acquired) else none
  | .decided false => some (setPc g t (.body false))
  | .acquired => some (setPc { g with owner := some t } t (.body true))
  | .body need => some (setPc g t (.after need raise))
  | .after true r => some (setPc { g with owner := none } t (.cleared r))
  | .after false _ => some (setPc g t .idle)
  | .cleared _ => some (setPc { g with held := none } t .idle)

def inCS : Pc → Bool
  | .acquired | .body true | .after true _ | .cleared _ => true
  | _ => false

def ownsName : Pc → Bool
  | .body true | .after true _ => true
  | _ => false

structure Inv (g : G) : Prop where
  held_cs : ∀ t, g.held = some t ↔ inCS (g.pc t) = true
  owner_ok : ∀ t, g.owner = some t → ownsName (g.pc t) = true
  no_reent : ∀ t, g.pc t ≠ .decided false ∧ g.pc t ≠ .body false ∧ ∀ r, g.pc t ≠ .after false r

def init : G := { held := none, owner := none, pc := fun _ => .idle }

theorem inv_init : Inv init := by
  constructor <;> simp [init, inCS, ownsName]

/-- mutual exclusion is a consequence of the invariant: two threads in the critical section coincide -/
theorem mutex_of_inv (g : G) (h : Inv g) (t u : Nat) (ht : inCS (g.pc t) = true) (hu : inCS (g.pc u) = true) : t = u := by
  have h1 := (h.held_cs t).mpr ht
  have h2 := (h.held_cs u).mpr hu
  rw [h1] at h2; exact Option.some.inj h2

theorem inv_step (g g' : G) (t : Nat) (r : Bool) (h : Inv g) (hs : step g t r = some g') : Inv g' := by
  unfold step at hs
  have hcs := h.held_cs
  have hown := h.owner_ok
  have hnr := h.no_reent
  cases hpc : g.pc t with
  | idle =>
    simp only [hpc] at hs
    have : g.owner ≠ some t := by
      intro ho; have := hown t ho; rw [hpc] at this; simp [ownsName] at this
    simp only [this, ne_eq, not_false_eq_true, decide_true, Option.some.injEq] at hs
    subst hs
    constructor
    · intro u
      by_cases hu : u = t
      · subst hu; simp only [setPc, if_true, inCS]
        have := hcs u; rw [hpc] at this; simp [inCS] at this; simp [this]
      · simp only [setPc, hu, if_false]; exact hcs u
    · intro u ho
      by_cases hu : u = t
      · subst hu; exact absurd ho this
      · simp only [setPc, hu, if_false]; exact hown u ho
    · intro u
      by_cases hu : u = t
      · subst hu; simp [setPc]
      · simp only [setPc, hu, if_false]; exact hnr u
  | decided need =>
    cases need with
    | false => exact absurd hpc (hnr t).1
    | true =>
      simp only [hpc] at hs
      split at hs
      · rename_i hfree
        simp only [Option.some.injEq] at hs; subst hs
        constructor
        · intro u
          by_cases hu : u = t
          · subst hu; simp [setPc, inCS]
          · simp only [setPc, hu, if_false]
            constructor
            · intro hh; exact absurd (Option.some.inj hh) (fun e => hu e.symm)
            · intro hc; have := (hcs u).mpr hc; rw [hfree] at this; cases this
        · intro u ho
          by_cases hu : u = t
          · subst hu; have := hown u ho; rw [hpc] at this; simp [ownsName] at this
          · simp only [setPc, hu, if_false]; exact hown u ho
        · intro u
          by_cases hu : u = t
          · subst hu; simp [setPc]
          · simp only [setPc, hu, if_false]; exact hnr u
      · cases hs
  | acquired =>
    simp only [hpc, Option.some.injEq] at hs; subst hs
    have hheld : g.held = some t := (hcs t).mpr (by rw [hpc]; rfl)
    constructor
    · intro u
      by_cases hu : u = t
      · subst hu; simp [setPc, inCS, hheld]
      · simp only [setPc, hu, if_false]; exact hcs u
    · intro u ho
      have hut : t = u := Option.some.inj ho
      subst hut; simp [setPc, ownsName]
    · intro u
      by_cases hu : u = t
      · subst hu; simp [setPc]
      · simp only [setPc, hu, if_false]; exact hnr u
  | body need =>
    cases need with
    | false => exact absurd hpc (hnr t).2.1
    | true =>
      simp only [hpc, Option.some.injEq] at hs; subst hs
      have hheld : g.held = some t := (hcs t).mpr (by rw [hpc]; rfl)
      constructor
      · intro u
        by_cases hu : u = t
        · subst hu; simp [setPc, inCS, hheld]
        · simp only [setPc, hu, if_false]; exact hcs u
      · intro u ho
        by_cases hu : u = t
        · subst hu; simp [setPc, ownsName]
        · simp only [setPc, hu, if_false]; exact hown u ho
      · intro u
        by_cases hu : u = t
        · subst hu; simp [setPc]
        · simp only [setPc, hu, if_false]; exact hnr u
  | after need raised =>
    cases need with
    | false => exact absurd hpc ((hnr t).2.2 raised)
    | true =>
      simp only [hpc, Option.some.injEq] at hs; subst hs
      have hheld : g.held = some t := (hcs t).mpr (by rw [hpc]; rfl)
      constructor
      · intro u
        by_cases hu : u = t
        · subst hu; simp [setPc, inCS, hheld]
        · simp only [setPc, hu, if_false]; exact hcs u
      · intro u ho; cases ho
      · intro u
        by_cases hu : u = t
        · subst hu; simp [setPc]
        · simp only [setPc, hu, if_false]; exact hnr u
  | cleared raised =>
    simp only [hpc, Option.some.injEq] at hs; subst hs
    have hheld : g.held = some t := (hcs t).mpr (by rw [hpc]; rfl)
    constructor
    · intro u
      by_cases hu : u = t
      · subst hu; simp [setPc, inCS]
      · simp only [setPc, hu, if_false]
        constructor
        · intro hc; cases hc
        · intro hc; have := (hcs u).mpr hc; rw [hheld] at this; exact absurd (Option.some.inj this) (fun e => hu e.symm)
    · intro u ho
      by_cases hu : u = t
      · subst hu; have := hown u ho; rw [hpc] at this; simp [ownsName] at this
      · simp only [setPc, hu, if_false]; exact hown u ho
    · intro u
      by_cases hu : u = t
      · subst hu; simp [setPc]
      · simp only [setPc, hu, if_false]; exact hnr u

/-- run a schedule: a list of (thread, raise?) choices; blocked steps are skipped -/
def run (g : G) : List (Nat × Bool) → G
  | [] => g
  | (t, r) :: rest => match step g t r with
    | some g' => run g' rest
    | none => run g rest

theorem inv_run (g : G) (h : Inv g) (sched : List (Nat × Bool)) : Inv (run g sched) := by
  induction sched generalizing g with
  | nil => exact h
  | cons x xs ih =>
    obtain ⟨t, r⟩ := x
    simp only [run]
    cases hs : step g t r with
    | some g' => exact ih g' (inv_step g g' t r h hs)
    | none => exact ih g h

/-- C17 (repaired wrapper): for every number of threads and every schedule, at most one thread is
    inside the critical section, and a thread whose call has ended — normally or by an exception —
    holds nothing: the lock is free whenever every thread is between calls. -/
theorem mutual_exclusion (sched : List (Nat × Bool)) (t u : Nat)
    (ht : inCS ((run init sched).pc t) = true) (hu : inCS ((run init sched).pc u) = true) : t = u :=
  mutex_of_inv _ (inv_run init inv_init sched) t u ht hu

theorem no_wedge (sched : List (Nat × Bool)) (hidle : ∀ t, (run init sched).pc t = .idle) :
    (run init sched).held = none ∧ (run init sched).owner = none := by
  have h := inv_run init inv_init sched
  constructor
  · cases hh : (run init sched).held with
    | none => rfl
    | some t => have := (h.held_cs t).mp hh; rw [hidle t] at this; simp [inCS] at this
  · cases ho : (run init sched).owner with
    | none => rfl
    | some t => have := h.owner_ok t ho; rw [hidle t] at this; simp [ownsName] at this

end Sync
#print axioms Sync.mutual_exclusion
#print axioms Sync.no_wedge
