/-! C17, "different oracles do not block each other": the `synchronized` wrapper over SEVERAL oracles.

`Ktm/Sync.lean` models one oracle and treats the lookup of its lock as atomic. Here the lookup is spelled out as the
code has it: the table of per-oracle locks is read (and the lock created) under one process-wide guard lock,
`with LOCKS_GUARD: lock = LOCKS[oracle]`, the guard is released, and only then the thread waits for the oracle's own
lock. Any number of threads, any number of oracles; a thread picks the oracle of its next call freely.

Facts proved for every reachable state:
* `guard_only_during_lookup` — the guard is held exactly by a thread that is in the middle of the lookup, never by a
  thread that waits for, or holds, an oracle's lock;
* `guard_holder_not_blocked` — the thread holding the guard can always take its next step, which releases the guard;
* `blocked_only_by_same_oracle` — a thread that cannot move either waits for the guard (held by a thread that is not
  blocked and releases it at its next step), or waits for the lock of oracle `o`, which is held by a thread that is
  inside a call on that very oracle `o`: a call on one oracle is never held up by calls on other oracles;
* `mutex_per_oracle` — two threads inside the critical section of the same oracle coincide;
* the variant that keeps the guard while waiting for the oracle's lock (`stepHeldGuard`) is refuted by a concrete
  schedule: a thread calling an idle oracle is blocked behind a thread queued on a busy one. -/
namespace SyncMulti

inductive Pc
  | idle
  | decided (o : Nat)      -- has read THREADS[o], needs the lock (re-entrant calls are in `Sync`)
  | lookup (o : Nat)       -- holds the guard, reads / creates LOCKS[o]
  | want (o : Nat)         -- guard released, waits for the lock of o
  | acquired (o : Nat)     -- holds the lock of o, owner not yet written
  | body (o : Nat)         -- inside the wrapped method
  | after (o : Nat)        -- method returned or raised
  | cleared (o : Nat)      -- owner cleared, lock not yet released
  deriving DecidableEq, Repr

structure G where
  guard : Option Nat            -- thread holding LOCKS_GUARD
  held : Nat → Option Nat       -- per oracle: thread holding its lock
  owner : Nat → Option Nat      -- THREADS[o]
  pc : Nat → Pc

def setPc (g : G) (t : Nat) (p : Pc) : G := { g with pc := fun u => if u = t then p else g.pc u }
def setHeld (g : G) (o : Nat) (v : Option Nat) : G := { g with held := fun x => if x = o then v else g.held x }
def setOwner (g : G) (o : Nat) (v : Option Nat) : G := { g with owner := fun x => if x = o then v else g.owner x }

/-- one step of thread `t`; `o` is the oracle an idle thread calls next. `none` = blocked. -/
def step (g : G) (t : Nat) (o : Nat) : Option G :=
  match g.pc t with
  | .idle => some (setPc g t (.decided o))
  | .decided o' => if g.guard = none then some (setPc { g with guard := some t } t (.lookup o')) else none
  | .lookup o' => some (setPc { g with guard := none } t (.want o'))
  | .want o' => if g.held o' = none then some (setPc (setHeld g o' (some t)) t (.acquired o')) else none
  | .acquired o' => some (setPc (setOwner g o' (some t)) t (.body o'))
  | .body o' => some (setPc g t (.after o'))
  | .after o' => some (setPc (setOwner g o' none) t (.cleared o'))
  | .cleared o' => some (setPc (setHeld g o' none) t .idle)

/-- the oracle whose lock the thread holds, if any -/
def csOf : Pc → Option Nat
  | .acquired o | .body o | .after o | .cleared o => some o
  | _ => none

def isLookup : Pc → Bool
  | .lookup _ => true
  | _ => false

structure Inv (g : G) : Prop where
  guard_iff : ∀ t, g.guard = some t ↔ isLookup (g.pc t) = true
  held_iff : ∀ o t, g.held o = some t ↔ csOf (g.pc t) = some o

def init : G := { guard := none, held := fun _ => none, owner := fun _ => none, pc := fun _ => .idle }

theorem inv_init : Inv init := by
  constructor <;> simp [init, isLookup, csOf]

theorem inv_step (g g' : G) (t o : Nat) (h : Inv g) (hs : step g t o = some g') : Inv g' := by
  unfold step at hs
  have hg := h.guard_iff
  have hh := h.held_iff
  cases hpc : g.pc t with
  | idle =>
    simp only [hpc, Option.some.injEq] at hs; subst hs
    constructor
    · intro u
      by_cases hu : u = t
      · subst hu
        have := hg u; rw [hpc] at this
        simp only [setPc, if_true, isLookup] at this ⊢
        simpa using this
      · simp only [setPc, hu, if_false]; exact hg u
    · intro x u
      by_cases hu : u = t
      · subst hu
        have := hh x u; rw [hpc] at this
        simp only [setPc, if_true, csOf] at this ⊢
        simpa using this
      · simp only [setPc, hu, if_false]; exact hh x u
  | decided o' =>
    simp only [hpc] at hs
    split at hs
    · rename_i hfree
      simp only [Option.some.injEq] at hs; subst hs
      constructor
      · intro u
        by_cases hu : u = t
        · subst hu; simp [setPc, isLookup]
        · simp only [setPc, hu, if_false]
          constructor
          · intro he; exact absurd (Option.some.inj he).symm hu
          · intro hl; have := (hg u).mpr hl; rw [hfree] at this; cases this
      · intro x u
        by_cases hu : u = t
        · subst hu
          have := hh x u; rw [hpc] at this
          simp only [setPc, if_true, csOf] at this ⊢
          simpa using this
        · simp only [setPc, hu, if_false]; exact hh x u
    · cases hs
  | lookup o' =>
    simp only [hpc, Option.some.injEq] at hs; subst hs
    have hmine : g.guard = some t := (hg t).mpr (by rw [hpc]; rfl)
    constructor
    · intro u
      by_cases hu : u = t
      · subst hu; simp [setPc, isLookup]
      · simp only [setPc, hu, if_false]
        constructor
        · intro he; cases he
        · intro hl
          have := (hg u).mpr hl
          rw [hmine] at this
          exact absurd (Option.some.inj this).symm hu
    · intro x u
      by_cases hu : u = t
      · subst hu
        have := hh x u; rw [hpc] at this
        simp only [setPc, if_true, csOf] at this ⊢
        simpa using this
      · simp only [setPc, hu, if_false]; exact hh x u
  | want o' =>
    simp only [hpc] at hs
    split at hs
    · rename_i hfree
      simp only [Option.some.injEq] at hs; subst hs
      constructor
      · intro u
        by_cases hu : u = t
        · subst hu
          have := hg u; rw [hpc] at this
          simp only [setPc, setHeld, if_true, isLookup] at this ⊢
          simpa using this
        · simp only [setPc, setHeld, hu, if_false]; exact hg u
      · intro x u
        by_cases hu : u = t
        · subst hu
          simp only [setPc, setHeld, if_true, csOf]
          by_cases hx : x = o'
          · subst hx; simp
          · simp only [hx, if_false]
            constructor
            · intro he
              have := (hh x u).mp he; rw [hpc] at this; simp [csOf] at this
            · intro he; exact absurd (Option.some.inj he).symm hx
        · simp only [setPc, setHeld, hu, if_false]
          by_cases hx : x = o'
          · subst hx
            simp only [if_true]
            constructor
            · intro he; exact absurd (Option.some.inj he).symm hu
            · intro hc; have := (hh x u).mpr hc; rw [hfree] at this; cases this
          · simp only [hx, if_false]; exact hh x u
    · cases hs
  | acquired o' =>
    simp only [hpc, Option.some.injEq] at hs; subst hs
    constructor
    · intro u
      by_cases hu : u = t
      · subst hu
        have := hg u; rw [hpc] at this
        simp only [setPc, setOwner, if_true, isLookup] at this ⊢
        simpa using this
      · simp only [setPc, setOwner, hu, if_false]; exact hg u
    · intro x u
      by_cases hu : u = t
      · subst hu
        have := hh x u; rw [hpc] at this
        simp only [setPc, setOwner, if_true, csOf] at this ⊢
        exact this
      · simp only [setPc, setOwner, hu, if_false]; exact hh x u
  | body o' =>
    simp only [hpc, Option.some.injEq] at hs; subst hs
    constructor
    · intro u
      by_cases hu : u = t
      · subst hu
        have := hg u; rw [hpc] at this
        simp only [setPc, if_true, isLookup] at this ⊢
        simpa using this
      · simp only [setPc, hu, if_false]; exact hg u
    · intro x u
      by_cases hu : u = t
      · subst hu
        have := hh x u; rw [hpc] at this
        simp only [setPc, if_true, csOf] at this ⊢
        exact this
      · simp only [setPc, hu, if_false]; exact hh x u
  | after o' =>
    simp only [hpc, Option.some.injEq] at hs; subst hs
    constructor
    · intro u
      by_cases hu : u = t
      · subst hu
        have := hg u; rw [hpc] at this
        simp only [setPc, setOwner, if_true, isLookup] at this ⊢
        simpa using this
      · simp only [setPc, setOwner, hu, if_false]; exact hg u
    · intro x u
      by_cases hu : u = t
      · subst hu
        have := hh x u; rw [hpc] at this
        simp only [setPc, setOwner, if_true, csOf] at this ⊢
        exact this
      · simp only [setPc, setOwner, hu, if_false]; exact hh x u
  | cleared o' =>
    simp only [hpc, Option.some.injEq] at hs; subst hs
    have hmine : g.held o' = some t := (hh o' t).mpr (by rw [hpc]; rfl)
    constructor
    · intro u
      by_cases hu : u = t
      · subst hu
        have := hg u; rw [hpc] at this
        simp only [setPc, setHeld, if_true, isLookup] at this ⊢
        simpa using this
      · simp only [setPc, setHeld, hu, if_false]; exact hg u
    · intro x u
      by_cases hu : u = t
      · subst hu
        simp only [setPc, setHeld, if_true, csOf]
        by_cases hx : x = o'
        · subst hx; simp
        · simp only [hx, if_false]
          constructor
          · intro he
            have := (hh x u).mp he; rw [hpc] at this
            simp only [csOf, Option.some.injEq] at this
            exact absurd this.symm hx
          · intro he; cases he
      · simp only [setPc, setHeld, hu, if_false]
        by_cases hx : x = o'
        · subst hx
          simp only [if_true]
          constructor
          · intro he; cases he
          · intro hc
            have := (hh x u).mpr hc
            rw [hmine] at this
            exact absurd (Option.some.inj this).symm hu
        · simp only [hx, if_false]; exact hh x u

/-- run a schedule of (thread, oracle it would call next); blocked steps leave the state unchanged -/
def run (g : G) : List (Nat × Nat) → G
  | [] => g
  | (t, o) :: rest => run ((step g t o).getD g) rest

theorem inv_run (g : G) (h : Inv g) (sched : List (Nat × Nat)) : Inv (run g sched) := by
  induction sched generalizing g with
  | nil => exact h
  | cons a rest ih =>
    obtain ⟨t, o⟩ := a
    simp only [run]
    cases hs : step g t o with
    | none => simpa using ih g h
    | some g' => simpa using ih g' (inv_step g g' t o h hs)

theorem inv_reachable (sched : List (Nat × Nat)) : Inv (run init sched) := inv_run init inv_init sched

/-- the guard is held exactly during the lookup — never while waiting for, or holding, an oracle's lock -/
theorem guard_only_during_lookup (sched : List (Nat × Nat)) (t : Nat) :
    (run init sched).guard = some t ↔ ∃ o, (run init sched).pc t = .lookup o := by
  have h := (inv_reachable sched).guard_iff t
  constructor
  · intro hgd
    have := h.mp hgd
    cases hp : (run init sched).pc t <;> rw [hp] at this <;> simp [isLookup] at this
    exact ⟨_, rfl⟩
  · intro ⟨o, ho⟩
    exact h.mpr (by rw [ho]; rfl)

/-- the thread holding the guard is never blocked; its step releases the guard -/
theorem guard_holder_not_blocked (g : G) (h : Inv g) (t o : Nat) (hgd : g.guard = some t) :
    ∃ g', step g t o = some g' ∧ g'.guard = none := by
  have := (h.guard_iff t).mp hgd
  cases hp : g.pc t <;> rw [hp] at this <;> simp [isLookup] at this
  rename_i o'
  exact ⟨setPc { g with guard := none } t (.want o'), by simp [step, hp], by simp [setPc]⟩

/-- **different oracles do not block each other**: a blocked thread waits either for the guard — whose holder is in
    the middle of a lookup and is not blocked — or for the lock of the oracle `o` it is calling, which is held by a
    thread inside a call on that same oracle `o` -/
theorem blocked_only_by_same_oracle (g : G) (h : Inv g) (t o : Nat) (hb : step g t o = none) :
    (∃ o' u, g.pc t = .decided o' ∧ g.guard = some u ∧ isLookup (g.pc u) = true) ∨
    (∃ o' u, g.pc t = .want o' ∧ g.held o' = some u ∧ csOf (g.pc u) = some o') := by
  unfold step at hb
  cases hpc : g.pc t with
  | decided o' =>
    simp only [hpc] at hb
    split at hb
    · cases hb
    · rename_i hne
      cases hgd : g.guard with
      | none => exact absurd hgd hne
      | some u => exact Or.inl ⟨o', u, rfl, rfl, (h.guard_iff u).mp hgd⟩
  | want o' =>
    simp only [hpc] at hb
    split at hb
    · cases hb
    · rename_i hne
      cases hhd : g.held o' with
      | none => exact absurd hhd hne
      | some u => exact Or.inr ⟨o', u, rfl, hhd, (h.held_iff o' u).mp hhd⟩
  | idle => simp [hpc] at hb
  | lookup o' => simp [hpc] at hb
  | acquired o' => simp [hpc] at hb
  | body o' => simp [hpc] at hb
  | after o' => simp [hpc] at hb
  | cleared o' => simp [hpc] at hb

/-- mutual exclusion per oracle -/
theorem mutex_per_oracle (sched : List (Nat × Nat)) (o t u : Nat)
    (ht : csOf ((run init sched).pc t) = some o) (hu : csOf ((run init sched).pc u) = some o) : t = u := by
  have h := inv_reachable sched
  have h1 := (h.held_iff o t).mpr ht
  have h2 := (h.held_iff o u).mpr hu
  rw [h1] at h2; exact Option.some.inj h2

/-! ### the variant that waits for the oracle's lock while still holding the guard -/

/-- `with LOCKS_GUARD: lock = LOCKS[o]; lock.acquire()` — the guard is released only once the lock was obtained -/
def stepHeldGuard (g : G) (t : Nat) (o : Nat) : Option G :=
  match g.pc t with
  | .lookup o' => if g.held o' = none then some (setPc (setHeld { g with guard := none } o' (some t)) t (.acquired o')) else none
  | _ => step g t o

def runHG (g : G) : List (Nat × Nat) → G
  | [] => g
  | (t, o) :: rest => runHG ((stepHeldGuard g t o).getD g) rest

/-- thread 0 is inside a call on oracle 0, thread 2 queues on oracle 0 (holding the guard), thread 1 calls the idle
    oracle 1 and is blocked: with the variant, a call on one oracle is held up by calls on another -/
theorem held_guard_blocks_other_oracle :
    let g := runHG init [(0, 0), (0, 0), (0, 0), (0, 0), (2, 0), (2, 0), (2, 0), (1, 1)]
    g.pc 0 = .body 0 ∧ g.pc 2 = .lookup 0 ∧ g.guard = some 2 ∧ g.pc 1 = .decided 1 ∧ stepHeldGuard g 1 1 = none := by
  refine ⟨?_, ?_, ?_, ?_, ?_⟩ <;> decide

/-- the code as it is, same schedule: thread 1 proceeds into its call on oracle 1 -/
example :
    let g := run init [(0, 0), (0, 0), (0, 0), (0, 0), (0, 0), (2, 0), (2, 0), (2, 0), (2, 0), (1, 1), (1, 1), (1, 1), (1, 1), (1, 1)]
    g.pc 0 = .body 0 ∧ g.pc 2 = .want 0 ∧ g.guard = none ∧ g.pc 1 = .body 1 := by
  refine ⟨?_, ?_, ?_, ?_⟩ <;> decide

end SyncMulti
#print axioms SyncMulti.blocked_only_by_same_oracle
#print axioms SyncMulti.guard_only_during_lookup
#print axioms SyncMulti.mutex_per_oracle
