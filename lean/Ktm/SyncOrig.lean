/-! C17 prototype: model of the ORIGINAL `synchronized` wrapper (per-oracle lock created lazily by a
    Python-level factory, owner table, no `try/finally`) and the two counter-example schedules. -/
namespace SyncOrig

inductive Pc
  | idle | decided (need : Bool) | inFactory (l : Nat) | gotLock (l : Nat) | acquired (l : Nat)
  | body | after | cleared | dead            -- dead: the call raised; nothing is cleaned up
  | crashed                                  -- `release unlocked lock`
  deriving DecidableEq, Repr

structure G where
  slot : Option Nat        -- LOCKS[oracle] (none = key missing)
  held : List Nat          -- locks currently locked
  owner : Option Nat       -- THREADS[oracle]
  nextLock : Nat
  pc : Nat → Pc

def setPc (g : G) (t : Nat) (p : Pc) : G := { g with pc := fun u => if u = t then p else g.pc u }

/-- one step of thread `t`; `raise` = the body raises; `none` = blocked on `acquire` -/
def step (g : G) (t : Nat) (raise : Bool) : Option G :=
  match g.pc t with
  | .idle => some (setPc g t (.decided (decide (g.owner ≠ some t))))
  | .decided false => some (setPc g t .body)
  | .decided true =>
    match g.slot with
    | some l => some (setPc g t (.gotLock l))
    | none => some (setPc { g with nextLock := g.nextLock + 1 } t (.inFactory g.nextLock))   -- `lambda: Lock()` runs
  | .inFactory l => some (setPc { g with slot := some l } t (.gotLock l))                     -- `__missing__` stores it
  | .gotLock l => if g.held.contains l then none else some (setPc { g with held := l :: g.held } t (.acquired l))
  | .acquired _ => some (setPc { g with owner := some t } t .body)
  | .body => some (setPc g t (if raise then .dead else .after))
  | .after => some (setPc { g with owner := none } t .cleared)
  | .cleared =>
    match g.slot with                                                                        -- `LOCKS[oracle].release()` looks the lock up again
    | some l => if g.held.contains l then some (setPc { g with held := g.held.erase l } t .idle)
                else some (setPc g t .crashed)
    | none => some (setPc g t .crashed)
  | .dead => some g
  | .crashed => some g

def init : G := { slot := none, held := [], owner := none, nextLock := 0, pc := fun _ => .idle }

def run (g : G) : List (Nat × Bool) → G
  | [] => g
  | (t, r) :: rest => match step g t r with
    | some g' => run g' rest
    | none => run g rest

/-- F2: first concurrent use of a fresh oracle — both threads are inside the wrapped function -/
def raceSchedule : List (Nat × Bool) :=
  [(0,false),(0,false),            -- t0: reads owner, misses the lock table, is inside the factory
   (1,false),(1,false),(1,false),(1,false),(1,false),   -- t1: same, stores its lock, acquires it, sets owner, enters the body
   (0,false),(0,false),(0,false)]  -- t0: stores *its* lock over t1's, acquires it, sets owner, enters the body

theorem race_breaks_mutex :
    (run init raceSchedule).pc 0 = .body ∧ (run init raceSchedule).pc 1 = .body := by decide

/-- … and the later releases hit the wrong lock: one thread ends in `release unlocked lock` -/
theorem race_then_release_error :
    (run init (raceSchedule ++ [(1,false),(1,false),(1,false),(0,false),(0,false),(0,false)])).pc 0 = .crashed := by decide

/-- F1: a call that raises leaves the lock held and the owner set; a second thread blocks forever -/
def raiseSchedule : List (Nat × Bool) :=
  [(0,false),(0,false),(0,false),(0,false),(0,false),(0,true),   -- t0 enters and raises
   (1,false),(1,false),(1,false),(1,false),(1,false)]            -- t1 decides, finds the lock, … stays blocked

theorem raise_wedges :
    (run init raiseSchedule).pc 0 = .dead ∧ (run init raiseSchedule).held = [0] ∧
    (run init raiseSchedule).owner = some 0 ∧ (run init raiseSchedule).pc 1 = .gotLock 0 := by decide

end SyncOrig
#print axioms SyncOrig.race_breaks_mutex
#print axioms SyncOrig.raise_wedges
