/-! C17 — a call whose wrapper reads shared state BEFORE taking the lock (defect F23: the legacy form
`end_trial(trial_id, status)` was converted into a `Trial` — which copies the oracle's search space — ahead of `lock.acquire()`).

Two kinds of calls on one shared value `s : Nat`, each an atomic critical section once the lock is held:
* `grow`   : `s := s + 1`                       (another thread's `end_trial` adds an entry to the space)
* `legacy` : records a snapshot of `s`          (the legacy call records the trial with a copy of the space)

In the repaired wrapper the snapshot is taken inside the critical section; in the original one it is taken at a step of its own,
ahead of the lock. Proved: with the snapshot inside, every schedule of every number of `grow` calls and one `legacy` call
records a snapshot that is the value of `s` at the legacy call's place in the lock order — i.e. the outcome of the calls run
sequentially in that order; with the snapshot ahead of the lock there is a schedule whose outcome no sequential order produces. -/
namespace SyncPre

/-- what thread `legacy` has done so far -/
inductive LPc | start | snapped (v : Nat) | done (v : Nat)
  deriving DecidableEq, Repr

structure G where
  s : Nat               -- the shared value (size of the search space)
  lpc : LPc
  grown : Nat           -- grow calls completed (each is one atomic critical section)
  deriving DecidableEq, Repr

inductive Ev | grow | legacyStep
  deriving DecidableEq, Repr

/-- original wrapper: the legacy call takes its snapshot in a step of its own (no lock held), then runs its critical section -/
def stepOrig (g : G) : Ev → G
  | .grow => { g with s := g.s + 1, grown := g.grown + 1 }
  | .legacyStep =>
    match g.lpc with
    | .start => { g with lpc := .snapped g.s }
    | .snapped v => { g with lpc := .done v }
    | .done _ => g

/-- repaired wrapper: snapshot and record are one critical section -/
def stepFix (g : G) : Ev → G
  | .grow => { g with s := g.s + 1, grown := g.grown + 1 }
  | .legacyStep =>
    match g.lpc with
    | .start => { g with lpc := .done g.s }
    | .snapped v => { g with lpc := .done v }
    | .done _ => g

def init : G := ⟨0, .start, 0⟩

def runOrig (g : G) (es : List Ev) : G := es.foldl stepOrig g
def runFix (g : G) (es : List Ev) : G := es.foldl stepFix g

/-- the sequential outcome: `k` grow calls, then the legacy call, then the remaining grow calls: the snapshot is `k` -/
def sequentialSnapshot (k : Nat) : Nat := k

/-- invariant of the repaired wrapper: `s` counts the completed grow calls, and a recorded snapshot is the number of grow
    calls that took the lock before the legacy call did -/
def InvFix (g : G) : Prop :=
  g.s = g.grown ∧ (∀ v, g.lpc = .snapped v → False) ∧ (∀ v, g.lpc = .done v → v ≤ g.grown)

theorem invFix_step (g : G) (e : Ev) (h : InvFix g) : InvFix (stepFix g e) := by
  obtain ⟨hs, hsn, hd⟩ := h
  cases e with
  | grow =>
    refine ⟨by simp [stepFix, hs], ?_, ?_⟩
    · intro v hv; exact hsn v (by simpa [stepFix] using hv)
    · intro v hv
      have := hd v (by simpa [stepFix] using hv)
      simp [stepFix]; omega
  | legacyStep =>
    cases hl : g.lpc with
    | start =>
      refine ⟨by simp [stepFix, hl, hs], ?_, ?_⟩
      · intro v hv; simp [stepFix, hl] at hv
      · intro v hv
        simp [stepFix, hl] at hv
        simp [stepFix, hl]; omega
    | snapped v => exact absurd hl (fun h' => hsn v h')
    | done v =>
      refine ⟨by simp [stepFix, hl, hs], ?_, ?_⟩
      · intro w hw; simp [stepFix, hl] at hw
      · intro w hw
        simp [stepFix, hl] at hw
        have := hd v hl
        simp [stepFix, hl]; omega

theorem invFix_run (es : List Ev) (g : G) (h : InvFix g) : InvFix (runFix g es) := by
  induction es generalizing g with
  | nil => simpa [runFix] using h
  | cons e es ih =>
    simp only [runFix, List.foldl_cons]
    exact ih _ (invFix_step g e h)

/-- the exact statement: the snapshot recorded by the repaired wrapper equals the number of grow calls that completed
    before the legacy call's critical section — the sequential outcome for that position in the lock order -/
def growsBeforeLegacy : List Ev → Nat
  | [] => 0
  | .grow :: es => growsBeforeLegacy es + 1
  | .legacyStep :: _ => 0

theorem fix_snapshot_is_sequential (es : List Ev) (g : G) (hs : g.lpc = .start) :
    ∀ v, (runFix g es).lpc = .done v → v = sequentialSnapshot (g.s + growsBeforeLegacy es) := by
  induction es generalizing g with
  | nil => intro v hv; simp [runFix, hs] at hv
  | cons e es ih =>
    intro v hv
    cases e with
    | grow =>
      have := ih { g with s := g.s + 1, grown := g.grown + 1 } (by simpa using hs) v (by simpa [runFix, stepFix] using hv)
      simp [sequentialSnapshot, growsBeforeLegacy] at this ⊢
      omega
    | legacyStep =>
      -- the legacy call's critical section runs now: snapshot = g.s, and it never changes afterwards
      have hkeep : ∀ (es : List Ev) (g' : G) w, g'.lpc = .done w → (runFix g' es).lpc = .done w := by
        intro es
        induction es with
        | nil => intro g' w h; simpa [runFix] using h
        | cons e es ih2 =>
          intro g' w h
          simp only [runFix, List.foldl_cons]
          apply ih2
          cases e <;> simp [stepFix, h]
      have h1 : (runFix g (.legacyStep :: es)).lpc = .done g.s := by
        simp only [runFix, List.foldl_cons]
        exact hkeep es _ g.s (by simp [stepFix, hs])
      rw [h1] at hv
      cases hv
      simp [sequentialSnapshot, growsBeforeLegacy]

/-- **the defect**: snapshot ahead of the lock. Schedule: the legacy call snapshots (0 entries), a grow call runs
    completely, the legacy call takes the lock and records — after one grow call, with a snapshot of 0 … -/
def badSchedule : List Ev := [.legacyStep, .grow, .legacyStep]

theorem orig_records_stale_snapshot : (runOrig init badSchedule).lpc = .done 0 ∧ (runOrig init badSchedule).s = 1 := by decide

/-- … although the legacy call took the lock AFTER the grow call: sequentially (grow; legacy) the snapshot is 1, and the
    other order (legacy; grow) is not the order in which the locks were taken. The repaired wrapper on the same schedule: -/
theorem fix_on_the_same_schedule : (runFix init badSchedule).lpc = .done 0 ∧ (runFix init [.grow, .legacyStep]).lpc = .done 1 := by decide

/-- in the original wrapper the recorded snapshot can differ from the value of `s` at the moment the legacy call holds the
    lock; in the repaired one it cannot (for every schedule) -/
theorem fix_snapshot_is_current (es : List Ev) :
    ∀ v, (runFix init es).lpc = .done v → v ≤ (runFix init es).grown ∧ (runFix init es).s = (runFix init es).grown := by
  intro v hv
  have h0 : InvFix init := by
    refine ⟨rfl, ?_, ?_⟩
    · intro v h; cases h
    · intro v h; cases h
  have h := invFix_run es init h0
  exact ⟨h.2.2 v hv, h.1⟩

end SyncPre
