import Ktm.Metrics
/-! C18 — `Oracle.update_trial` over `MetricsTracker`: one report is a dict of (metric, value) pairs for one step.
A metric seen for the first time is registered with a direction: the objective's own direction if the metric is the
objective (or, for a multi-objective, one of its components — defect F22, repaired), otherwise what its name says
(`infer_metric_direction`, a parameter here), otherwise "min". Then the value is recorded at the step.

Proved: the direction a metric is tracked under never depends on the other metrics of the report nor on their order
(it is `dirOf` of its own name for every reachable tracker); what a report does to one metric depends only on the value
reported for that metric, whatever the order of the dict. -/
namespace Track
open Metrics

structure Obj where
  name : String
  minimize : Bool
  parts : List (String × Bool)      -- components of a multi-objective (empty for a single objective)

def partDir : List (String × Bool) → String → Option Bool
  | [], _ => none
  | (n, d) :: ps, m => if n = m then some d else partDir ps m

/-- `_maybe_infer_direction_from_objective`: the objective itself, then its components -/
def objDir (o : Obj) (m : String) : Option Bool :=
  if o.name = m then some o.minimize else partDir o.parts m

/-- the direction `MetricsTracker.register` ends up with (`true` = minimise) -/
def dirOf (infer : String → Option Bool) (o : Obj) (m : String) : Bool :=
  match objDir o m with
  | some d => d
  | none => (infer m).getD true

structure Hist where
  minimize : Bool
  obs : List Obs

abbrev Tracker := List (String × Hist)      -- registration order

def lookup : Tracker → String → Option Hist
  | [], _ => none
  | (n, h) :: t, m => if n = m then some h else lookup t m

/-- one pair of a report: register if unknown, record the value at the step -/
def upd (infer : String → Option Bool) (o : Obj) (step : Int) : Tracker → String → FV → Tracker
  | [], m, v => [(m, ⟨dirOf infer o m, update [] step v⟩)]
  | (n, h) :: t, m, v =>
    if n = m then (n, { h with obs := update h.obs step v }) :: t else (n, h) :: upd infer o step t m v

/-- one call of `update_trial` -/
def report (infer : String → Option Bool) (o : Obj) (t : Tracker) (step : Int) (kvs : List (String × FV)) : Tracker :=
  kvs.foldl (fun t kv => upd infer o step t kv.1 kv.2) t

/-- a whole trial: reports in sequence -/
def reports (infer : String → Option Bool) (o : Obj) (rs : List (Int × List (String × FV))) : Tracker :=
  rs.foldl (fun t r => report infer o t r.1 r.2) []

/-- what a report of value `v` at `step` does to the record of one metric -/
def into (infer : String → Option Bool) (o : Obj) (step : Int) (m : String) (old : Option Hist) (v : FV) : Hist :=
  match old with
  | some h => { h with obs := update h.obs step v }
  | none => ⟨dirOf infer o m, update [] step v⟩

theorem lookup_upd (infer : String → Option Bool) (o : Obj) (step : Int) (t : Tracker) (m : String) (v : FV) (m' : String) :
    lookup (upd infer o step t m v) m' =
      if m = m' then some (into infer o step m (lookup t m) v) else lookup t m' := by
  induction t with
  | nil =>
    simp only [upd, lookup, into]
  | cons a t ih =>
    obtain ⟨n, h⟩ := a
    simp only [upd]
    by_cases hnm : n = m
    · subst hnm
      simp only [if_true, lookup, into]
      by_cases h2 : n = m'
      · simp [h2]
      · simp [h2]
    · simp only [hnm, if_false, lookup]
      by_cases h2 : n = m'
      · subst h2
        have : ¬ m = n := fun e => hnm e.symm
        simp [this]
      · simp only [h2, if_false]
        exact ih

/-- a metric that is not part of the report is untouched; a metric that is gets exactly its own value — whatever
    else the report holds and in whatever order (keys of a dict are distinct) -/
theorem report_one_metric (infer : String → Option Bool) (o : Obj) (step : Int) (kvs : List (String × FV))
    (hnd : (kvs.map (·.1)).Nodup) (t : Tracker) (m : String) :
    (m ∉ kvs.map (·.1) → lookup (report infer o t step kvs) m = lookup t m) ∧
    (∀ v, (m, v) ∈ kvs → lookup (report infer o t step kvs) m = some (into infer o step m (lookup t m) v)) := by
  induction kvs generalizing t with
  | nil => simp [report]
  | cons kv kvs ih =>
    obtain ⟨k, w⟩ := kv
    simp only [List.map_cons, List.nodup_cons] at hnd
    obtain ⟨hk, hnd'⟩ := hnd
    have hstep : report infer o t step ((k, w) :: kvs) = report infer o (upd infer o step t k w) step kvs := by
      simp [report]
    obtain ⟨ih1, ih2⟩ := ih hnd' (upd infer o step t k w)
    constructor
    · intro hm
      simp only [List.map_cons, List.mem_cons, not_or] at hm
      rw [hstep, ih1 hm.2, lookup_upd]
      have : ¬ k = m := fun e => hm.1 e.symm
      simp [this]
    · intro v hv
      simp only [List.mem_cons, Prod.mk.injEq] at hv
      rcases hv with ⟨hmk, hvw⟩ | hv
      · subst hmk; subst hvw
        rw [hstep, ih1 hk, lookup_upd]
        simp
      · have hmem : m ∈ kvs.map (·.1) := List.mem_map.mpr ⟨(m, v), hv, rfl⟩
        have hne : ¬ k = m := fun e => hk (e ▸ hmem)
        rw [hstep, ih2 v hv, lookup_upd]
        simp [hne]

/-- every tracked metric keeps the direction of its own name -/
def WF (infer : String → Option Bool) (o : Obj) (t : Tracker) : Prop :=
  ∀ n h, (n, h) ∈ t → h.minimize = dirOf infer o n

theorem wf_upd (infer : String → Option Bool) (o : Obj) (step : Int) (t : Tracker) (m : String) (v : FV)
    (hw : WF infer o t) : WF infer o (upd infer o step t m v) := by
  induction t with
  | nil =>
    intro n h hm
    simp only [upd, List.mem_singleton, Prod.mk.injEq] at hm
    obtain ⟨rfl, rfl⟩ := hm
    rfl
  | cons a t ih =>
    obtain ⟨n0, h0⟩ := a
    intro n h hm
    simp only [upd] at hm
    by_cases hnm : n0 = m
    · simp only [hnm, if_true, List.mem_cons, Prod.mk.injEq] at hm
      rcases hm with ⟨hn, hh⟩ | hm
      · rw [hh, hn, ← hnm]
        exact hw n0 h0 (List.mem_cons_self ..)
      · exact hw n h (List.mem_cons_of_mem _ hm)
    · simp only [hnm, if_false, List.mem_cons, Prod.mk.injEq] at hm
      rcases hm with ⟨hn, hh⟩ | hm
      · rw [hh, hn]
        exact hw n0 h0 (List.mem_cons_self ..)
      · exact ih (fun n h hm => hw n h (List.mem_cons_of_mem _ hm)) n h hm

theorem wf_report (infer : String → Option Bool) (o : Obj) (step : Int) (kvs : List (String × FV)) (t : Tracker)
    (hw : WF infer o t) : WF infer o (report infer o t step kvs) := by
  induction kvs generalizing t with
  | nil => simpa [report] using hw
  | cons kv kvs ih =>
    have : report infer o t step (kv :: kvs) = report infer o (upd infer o step t kv.1 kv.2) step kvs := by simp [report]
    rw [this]
    exact ih _ (wf_upd infer o step t kv.1 kv.2 hw)

/-- for every sequence of reports of a trial (any metrics, any order inside each report) every metric is tracked
    under the direction of its own name: the objective's as the user gave it (components of a multi-objective
    included), otherwise what the name says, otherwise "min" -/
theorem wf_reports (infer : String → Option Bool) (o : Obj) (rs : List (Int × List (String × FV))) :
    WF infer o (reports infer o rs) := by
  unfold reports
  suffices h : ∀ t, WF infer o t → WF infer o (rs.foldl (fun t r => report infer o t r.1 r.2) t) from
    h [] (fun _ _ hm => by cases hm)
  induction rs with
  | nil => intro t hw; simpa using hw
  | cons r rs ih =>
    intro t hw
    simp only [List.foldl_cons]
    exact ih _ (wf_report infer o r.1 r.2 t hw)

theorem dir_of_objective (infer : String → Option Bool) (o : Obj) : dirOf infer o o.name = o.minimize := by
  simp [dirOf, objDir]

theorem dir_of_component (infer : String → Option Bool) (o : Obj) (m : String) (d : Bool)
    (hne : o.name ≠ m) (hp : partDir o.parts m = some d) : dirOf infer o m = d := by
  simp [dirOf, objDir, hne, hp]

theorem dir_of_other (infer : String → Option Bool) (o : Obj) (m : String)
    (hne : o.name ≠ m) (hp : partDir o.parts m = none) : dirOf infer o m = (infer m).getD true := by
  simp [dirOf, objDir, hne, hp]

/-- the best value of a tracked metric follows the direction it is tracked under -/
def best (h : Hist) : Option FV := Metrics.bestValue h.minimize h.obs
def bestStepOf (h : Hist) : Option Int := Metrics.bestStep h.minimize h.obs

/-- non-vacuity: objective `score` maximised, report {score, loss} then {loss, score}: `loss` is minimised, `score` maximised -/
example :
    let o : Obj := ⟨"score", false, []⟩
    let inf : String → Option Bool := fun n => if n = "loss" then some true else none
    let t := reports inf o [(0, [("score", .val (.fin 1)), ("loss", .val (.fin 2))]), (1, [("loss", .val (.fin 1)), ("score", .val (.fin 3))])]
    (lookup t "loss").map (·.minimize) = some true ∧ (lookup t "score").map (·.minimize) = some false := by
  decide

end Track
