/-! C14 prototype (exact arithmetic): probability = num/den with 0 ≤ num < den (the exact value of a
    double in [0,1)); `prob_to_index`, `index_to_prob`, linear integer lattice. -/
namespace Transforms

/-- `prob_to_index(prob, n)`: floor(prob * n), clipped to n-1 -/
def probToIndex (num den n : Nat) : Nat := min (num * n / den) (n - 1)

/-- `index_to_prob(i, n)` = (i + 1/2)/n = (2i+1)/(2n) -/
def indexToProbNum (i : Nat) : Nat := 2 * i + 1
def indexToProbDen (n : Nat) : Nat := 2 * n

theorem probToIndex_lt (num den n : Nat) (hn : 0 < n) : probToIndex num den n < n := by
  unfold probToIndex; omega

/-- without the clip: a probability below 1 already lands inside -/
theorem floor_lt (num den n : Nat) (hp : num < den) (hn : 0 < n) : num * n / den < n := by
  have hd : 0 < den := by omega
  rw [Nat.div_lt_iff_lt_mul hd]
  exact Nat.mul_lt_mul_of_lt_of_le hp (Nat.le_refl n) hn |> fun h => by rw [Nat.mul_comm n den]; exact h

theorem index_prob_index (i n : Nat) (hi : i < n) :
    probToIndex (indexToProbNum i) (indexToProbDen n) n = i := by
  unfold probToIndex indexToProbNum indexToProbDen
  have h2n : 0 < 2 * n := by omega
  have : (2 * i + 1) * n / (2 * n) = i := by
    have e : (2 * i + 1) * n = n + i * (2 * n) := by
      rw [Nat.add_mul, Nat.one_mul, Nat.add_comm]
      congr 1
      rw [Nat.mul_comm 2 i, Nat.mul_assoc]
    rw [e, Nat.add_mul_div_right _ _ h2n]
    have : n / (2 * n) = 0 := Nat.div_eq_of_lt (by omega)
    omega
  rw [this]; omega

/-- the probability of an index is a legal probability -/
theorem indexToProb_lt_one (i n : Nat) (hi : i < n) : indexToProbNum i < indexToProbDen n := by
  unfold indexToProbNum indexToProbDen; omega

/-! ### linear integer lattice: `Int(min, max, step)` -/

def nValues (lo hi : Int) (step : Nat) : Nat := ((hi - lo) / step).toNat + 1

def valueByIndex (lo : Int) (step : Nat) (i : Nat) : Int := lo + i * step

def values (lo hi : Int) (step : Nat) : List Int := (List.range (nValues lo hi step)).map (valueByIndex lo step)

/-- the enumerated values are exactly the lattice points in [lo, hi] -/
theorem mem_values (lo hi : Int) (step : Nat) (hs : 0 < step) (hle : lo ≤ hi) (v : Int) :
    v ∈ values lo hi step ↔ lo ≤ v ∧ v ≤ hi ∧ ∃ k : Nat, v = lo + k * step := by
  unfold values nValues valueByIndex
  simp only [List.mem_map, List.mem_range]
  have hstep : (0 : Int) < step := by exact_mod_cast hs
  have hnn : 0 ≤ (hi - lo) / (step : Int) := Int.ediv_nonneg (by omega) (by omega)
  constructor
  · rintro ⟨k, hk, rfl⟩
    have hk' : (k : Int) ≤ (hi - lo) / step := by omega
    have : (k : Int) * step ≤ hi - lo := by
      have := Int.mul_le_mul_of_nonneg_right hk' (by omega : (0 : Int) ≤ step)
      have h2 := Int.ediv_mul_le (hi - lo) (by omega : (step : Int) ≠ 0)
      omega
    refine ⟨?_, by omega, k, rfl⟩
    have : (0 : Int) ≤ k * step := Int.mul_nonneg (by omega) (by omega)
    omega
  · rintro ⟨h1, h2, k, rfl⟩
    refine ⟨k, ?_, rfl⟩
    have hk : (k : Int) * step ≤ hi - lo := by omega
    have : (k : Int) ≤ (hi - lo) / step := (Int.le_ediv_iff_mul_le hstep).mpr hk
    omega

/-- `max` is included iff it lies on the lattice -/
theorem max_included_iff (lo hi : Int) (step : Nat) (hs : 0 < step) (hle : lo ≤ hi) :
    hi ∈ values lo hi step ↔ ∃ k : Nat, hi = lo + k * step := by
  rw [mem_values lo hi step hs hle]
  constructor
  · rintro ⟨_, _, h⟩; exact h
  · intro h; exact ⟨hle, Int.le_refl _, h⟩

end Transforms
#print axioms Transforms.index_prob_index
#print axioms Transforms.mem_values
