/-! C14 prototype (exact arithmetic): probability = num/den with 0 ≤ num < den (the exact value of a
    double in [0,1)); `prob_to_index`, `index_to_prob`, linear integer lattice. -/
namespace Transforms

/-- `prob_to_index(prob, n)`: floor(prob * n), clipped to n-1 -/
def probToIndex (num den n : Nat) : Nat := min (num * n / den) (n - 1)

/-- `index_to_prob(i, n)` = (i + 1/2)/n = (2i+1)/(2n) -/
def indexToProbNum (i : Nat) : Nat := 2 * i + 1
def indexToProbDen (n : Nat) : Nat := 2 * n

theorem probToIndex_lt (num den n : Nat) (hn : 0 < n) : probToIndex num den n < n := by
  unfold probToIndex; omega

/-- without the clip: a probability below 1 already lands inside -/
theorem floor_lt (num den n : Nat) (hp : num < den) (hn : 0 < n) : num * n / den < n := by
  have hd : 0 < den := by omega
  rw [Nat.div_lt_iff_lt_mul hd]
  exact Nat.mul_lt_mul_of_lt_of_le hp (Nat.le_refl n) hn |> fun h => by rw [Nat.mul_comm n den]; exact h

theorem index_prob_index (i n : Nat) (hi : i < n) :
    probToIndex (indexToProbNum i) (indexToProbDen n) n = i := by
  unfold probToIndex indexToProbNum indexToProbDen
  have h2n : 0 < 2 * n := by omega
  have : (2 * i + 1) * n / (2 * n) = i := by
    have e : (2 * i + 1) * n = n + i * (2 * n) := by
      rw [Nat.add_mul, Nat.one_mul, Nat.add_comm]
      congr 1
      rw [Nat.mul_comm 2 i, Nat.mul_assoc]
    rw [e, Nat.add_mul_div_right _ _ h2n]
    have : n / (2 * n) = 0 := Nat.div_eq_of_lt (by omega)
    omega
  rw [this]; omega

/-- the probability of an index is a legal probability -/
theorem indexToProb_lt_one (i n : Nat) (hi : i < n) : indexToProbNum i < indexToProbDen n := by
  unfold indexToProbNum indexToProbDen; omega

/-! ### linear integer lattice: `Int(min, max, step)` -/

def nValues (lo hi : Int) (step : Nat) : Nat := ((hi - lo) / step).toNat + 1

def valueByIndex (lo : Int) (step : Nat) (i : Nat) : Int := lo + i * step

def values (lo hi : Int) (step : Nat) : List Int := (List.range (nValues lo hi step)).map (valueByIndex lo step)

/-- the enumerated values are exactly the lattice points in [lo, hi] -/
theorem mem_values (lo hi : Int) (step : Nat) (hs : 0 < step) (hle : lo ≤ hi) (v : Int) :
    v ∈ values lo hi step ↔ lo ≤ v ∧ v ≤ hi ∧ ∃ k : Nat, v = lo + k * step := by
  unfold values nValues valueByIndex
  simp only [List.mem_map, List.mem_range]
  have hstep : (0 : Int) < step := by exact_mod_cast hs
  have hnn : 0 ≤ (hi - lo) / (step : Int) := Int.ediv_nonneg (by omega) (by omega)
  constructor
  · rintro ⟨k, hk, rfl⟩
    have hk' : (k : Int) ≤ (hi - lo) / step := by omega
    have : (k : Int) * step ≤ hi - lo := by
      have := Int.mul_le_mul_of_nonneg_right hk' (by omega : (0 : Int) ≤ step)
      have h2 := Int.ediv_mul_le (hi - lo) (by omega : (step : Int) ≠ 0)
      omega
    refine ⟨?_, by omega, k, rfl⟩
    have : (0 : Int) ≤ k * step := Int.mul_nonneg (by omega) (by omega)
    omega
  · rintro ⟨h1, h2, k, rfl⟩
    refine ⟨k, ?_, rfl⟩
    have hk : (k : Int) * step ≤ hi - lo := by omega
    have : (k : Int) ≤ (hi - lo) / step := (Int.le_ediv_iff_mul_le hstep).mpr hk
    omega

/-- `max` is included iff it lies on the lattice -/
theorem max_included_iff (lo hi : Int) (step : Nat) (hs : 0 < step) (hle : lo ≤ hi) :
    hi ∈ values lo hi step ↔ ∃ k : Nat, hi = lo + k * step := by
  rw [mem_values lo hi step hs hle]
  constructor
  · rintro ⟨_, _, h⟩; exact h
  · intro h; exact ⟨hle, Int.le_refl _, h⟩


/-! ### probability ↔ value on the linear lattice (`Int` / `Float` with `step`, scaled to integers) -/

/-- `_sample_with_step` -/
def probToValueLin (lo hi : Int) (step : Nat) (num den : Nat) : Int :=
  valueByIndex lo step (probToIndex num den (nValues lo hi step))

/-- the index `_to_prob_with_step` computes from a value: `(value − min) / step` -/
def indexOfLin (lo : Int) (step : Nat) (v : Int) : Nat := ((v - lo) / step).toNat

theorem nValues_pos (lo hi : Int) (step : Nat) : 0 < nValues lo hi step := by unfold nValues; omega

/-- every probability in [0,1) is mapped to a lattice value inside [min, max] -/
theorem probToValueLin_mem (lo hi : Int) (step : Nat) (hs : 0 < step) (hle : lo ≤ hi) (num den : Nat) :
    probToValueLin lo hi step num den ∈ values lo hi step := by
  unfold probToValueLin values
  simp only [List.mem_map, List.mem_range]
  exact ⟨_, probToIndex_lt _ _ _ (nValues_pos lo hi step), rfl⟩

theorem indexOfLin_valueByIndex (lo : Int) (step : Nat) (hs : 0 < step) (i : Nat) :
    indexOfLin lo step (valueByIndex lo step i) = i := by
  unfold indexOfLin valueByIndex
  have : lo + (i : Int) * step - lo = i * step := by omega
  rw [this, Int.mul_ediv_cancel _ (by exact_mod_cast (Nat.pos_iff_ne_zero.mp hs))]
  simp

/-- value → probability → value is the identity on every lattice value -/
theorem value_prob_value_lin (lo hi : Int) (step : Nat) (hs : 0 < step) (i : Nat) (hi' : i < nValues lo hi step) :
    probToValueLin lo hi step (indexToProbNum (indexOfLin lo step (valueByIndex lo step i)))
      (indexToProbDen (nValues lo hi step)) = valueByIndex lo step i := by
  unfold probToValueLin
  rw [indexOfLin_valueByIndex lo step hs i, index_prob_index i _ hi']

/-! ### log / reverse_log lattice: `min · step^i ≤ max` with `min = a/D`, `max = b/D`, `step = s/t > 1` -/

/-- count the `i` with `a·s^i ≤ b·t^i`, scanning upwards (`_get_n_values` for log sampling) -/
def nLogAux (a b s t : Nat) : Nat → Nat → Nat → Nat → Nat
  | 0, i, _, _ => i
  | fuel + 1, i, ps, pt => if a * ps ≤ b * pt then nLogAux a b s t fuel (i + 1) (ps * s) (pt * t) else i

def nLog (a b s t fuel : Nat) : Nat := nLogAux a b s t fuel 0 1 1

theorem nLogAux_spec (a b s t : Nat) : ∀ (fuel i : Nat), nLogAux a b s t fuel i (s ^ i) (t ^ i) < i + fuel →
    (∀ j, i ≤ j → j < nLogAux a b s t fuel i (s ^ i) (t ^ i) → a * s ^ j ≤ b * t ^ j) ∧
    ¬ a * s ^ (nLogAux a b s t fuel i (s ^ i) (t ^ i)) ≤ b * t ^ (nLogAux a b s t fuel i (s ^ i) (t ^ i)) ∧
    i ≤ nLogAux a b s t fuel i (s ^ i) (t ^ i) := by
  intro fuel
  induction fuel with
  | zero => intro i h; simp [nLogAux] at h
  | succ fuel ih =>
    intro i h
    simp only [nLogAux] at h ⊢
    by_cases hc : a * s ^ i ≤ b * t ^ i
    · simp only [hc, if_true] at h ⊢
      have e1 : s ^ i * s = s ^ (i + 1) := by rw [Nat.pow_succ]
      have e2 : t ^ i * t = t ^ (i + 1) := by rw [Nat.pow_succ]
      rw [e1, e2] at h ⊢
      obtain ⟨h1, h2, h3⟩ := ih (i + 1) (by omega)
      refine ⟨fun j hij hj => ?_, h2, by omega⟩
      by_cases hji : j = i
      · subst hji; exact hc
      · exact h1 j (by omega) hj
    · rw [if_neg hc]
      exact ⟨fun j hij hj => by omega, hc, Nat.le_refl _⟩

/-- **the log lattice is exact**: unless the scan ran out of fuel, index `i` is on the lattice exactly when
    `min · step^i ≤ max` holds for all indices up to it, and the first index beyond exceeds `max` -/
theorem nLog_spec (a b s t fuel : Nat) (h : nLog a b s t fuel < fuel) :
    (∀ j, j < nLog a b s t fuel → a * s ^ j ≤ b * t ^ j) ∧ ¬ a * s ^ (nLog a b s t fuel) ≤ b * t ^ (nLog a b s t fuel) := by
  have := nLogAux_spec a b s t fuel 0 (by simpa [nLog] using h)
  simp only [Nat.pow_zero] at this
  exact ⟨fun j hj => this.1 j (Nat.zero_le _) hj, this.2.1⟩

/-- beyond the first failing index every index fails (the lattice is an initial segment): `step > 1` -/
theorem log_monotone (a b s t : Nat) (ht : 0 < t) (hst : t ≤ s) (i : Nat) (h : ¬ a * s ^ i ≤ b * t ^ i) :
    ¬ a * s ^ (i + 1) ≤ b * t ^ (i + 1) := by
  intro hc
  apply h
  rw [Nat.pow_succ, Nat.pow_succ, ← Nat.mul_assoc, ← Nat.mul_assoc] at hc
  have h1 : a * s ^ i * t ≤ a * s ^ i * s := Nat.mul_le_mul_left _ hst
  have h2 : a * s ^ i * t ≤ b * t ^ i * t := Nat.le_trans h1 hc
  exact Nat.le_of_mul_le_mul_right h2 ht

/-! ### Choice, Boolean, Fixed -/

/-- `Choice.prob_to_value`: an element of the list, for every probability -/
theorem choice_mem {α} (vals : List α) (hne : vals ≠ []) (num den : Nat) :
    ∃ v, vals[probToIndex num den vals.length]? = some v := by
  have hlt := probToIndex_lt num den vals.length (List.length_pos_iff.mpr hne)
  exact ⟨vals[probToIndex num den vals.length], List.getElem?_eq_getElem hlt⟩

/-- `Choice`: value → probability → value is the identity (first occurrence) -/
theorem choice_roundtrip {α} [DecidableEq α] (vals : List α) (v : α) (hv : v ∈ vals) :
    vals[probToIndex (indexToProbNum (vals.idxOf v)) (indexToProbDen vals.length) vals.length]? = some v := by
  have hi : vals.idxOf v < vals.length := List.idxOf_lt_length_of_mem hv
  rw [index_prob_index _ _ hi]
  simp [hi]

/-- `Boolean.prob_to_value (p) = (p ≥ 1/2)`; `value_to_prob` = 3/4 or 1/4 -/
def boolOfProb (num den : Nat) : Bool := decide (den ≤ 2 * num)
theorem bool_roundtrip (b : Bool) : boolOfProb (if b then 3 else 1) 4 = b := by cases b <;> decide

end Transforms
#print axioms Transforms.nLog_spec
#print axioms Transforms.value_prob_value_lin
#print axioms Transforms.index_prob_index
#print axioms Transforms.mem_values
