/-! C02 / C08 / C19 at tuner level — when does a restarted `BaseTuner` reload the project?

`BaseTuner.__init__` reloads (oracle and tuner) only if the TUNER's own state file exists; that file is written by `save()` at the
end of every `on_trial_end`, right after `Oracle.end_trial` has written `oracle.json`. File-level model of one tuner's search:
trial `i` contributes the writes `oracle.json (i ended)` (create_trial), `oracle.json (i+1 ended)` (end_trial), and `BaseTuner.save()`:
`oracle.json (i+1 ended)` once more, then the `tuner file`.
A crash leaves a prefix of the write sequence on disk.

Proved: for every number of trials and EVERY crash point, the restarted tuner knows every trial the disk records as ended —
except in one window: exactly one trial ended and no tuner file yet (known finding F18). A search that wrote the tuner file only at
its end (seeded change C02-E) forgets arbitrarily many. -/
namespace TunerFile

inductive W | oracle (ended : Nat) | tuner
  deriving DecidableEq, Repr

/-- disk: (trials recorded as ended in oracle.json, tuner file exists) -/
abbrev Disk := Nat × Bool

def apply (d : Disk) : W → Disk
  | .oracle e => (e, d.2)
  | .tuner => (d.1, true)

def disk (ws : List W) : Disk := ws.foldl apply (0, false)

def trialWrites (i : Nat) : List W := [.oracle i, .oracle (i + 1), .oracle (i + 1), .tuner]

def searchWrites : Nat → List W
  | 0 => []
  | n + 1 => searchWrites n ++ trialWrites n

/-- what the restarted tuner knows: everything on disk if it reloads, nothing otherwise -/
def restartKnows (d : Disk) : Nat := if d.2 then d.1 else 0

theorem disk_append (a b : List W) : disk (a ++ b) = b.foldl apply (disk a) := by
  simp [disk, List.foldl_append]

theorem disk_full (n : Nat) : disk (searchWrites n) = (n, decide (0 < n)) := by
  induction n with
  | zero => rfl
  | succ n ih =>
    simp only [searchWrites, disk_append, ih, trialWrites, List.foldl_cons, List.foldl_nil, apply]
    simp

/-- every prefix of the write sequence: no tuner file ⇒ at most one trial is recorded as ended -/
theorem prefix_window (n k : Nat) : (disk ((searchWrites n).take k)).2 = false → (disk ((searchWrites n).take k)).1 ≤ 1 := by
  induction n generalizing k with
  | zero => intro _; simp [searchWrites, disk]
  | succ n ih =>
    simp only [searchWrites, List.take_append]
    by_cases hk : k ≤ (searchWrites n).length
    · have h0 : k - (searchWrites n).length = 0 := by omega
      simp only [h0, List.take_zero, List.append_nil]
      exact ih k
    · have hfull : (searchWrites n).take k = searchWrites n := List.take_of_length_le (by omega)
      rw [hfull, disk_append, disk_full]
      generalize k - (searchWrites n).length = j
      -- the four prefixes of one trial's writes
      match j with
      | 0 => simp <;> (intro h; omega)
      | 1 => simp [trialWrites, apply] <;> (intro h; omega)
      | 2 => simp [trialWrites, apply] <;> (intro h; omega)
      | 3 => simp [trialWrites, apply] <;> (intro h; omega)
      | j + 4 => simp [trialWrites, apply]

/-- the restarted tuner knows every trial the disk records as ended, except in the window "one trial ended, no tuner file" -/
theorem restart_knows_all_but_window (n k : Nat) :
    restartKnows (disk ((searchWrites n).take k)) = (disk ((searchWrites n).take k)).1 ∨
    ((disk ((searchWrites n).take k)).1 = 1 ∧ (disk ((searchWrites n).take k)).2 = false) := by
  generalize hd : disk ((searchWrites n).take k) = d
  have hw := prefix_window n k
  rw [hd] at hw
  by_cases h : d.2 = true
  · left; simp [restartKnows, h]
  · have h' : d.2 = false := by simpa using h
    have := hw h'
    by_cases h1 : d.1 = 1
    · right; exact ⟨h1, h'⟩
    · left
      have h0 : d.1 = 0 := by omega
      simp [restartKnows, h', h0]

/-- the window exists (known finding F18): first trial ended on disk, tuner file not yet written -/
example : disk ((searchWrites 3).take 2) = (1, false) ∧ restartKnows (disk ((searchWrites 3).take 2)) = 0 := by decide

/-- a tuner that writes its file only when the search is over (seeded change C02-E): after two trials the restart knows nothing -/
def lateWrites : Nat → List W
  | 0 => []
  | n + 1 => lateWrites n ++ [.oracle n, .oracle (n + 1), .oracle (n + 1)]

theorem late_tuner_file_forgets : (disk (lateWrites 2)).1 = 2 ∧ restartKnows (disk (lateWrites 2)) = 0 := by decide

end TunerFile
