import Ktm.DriverAll
/-! stdin → stdout line loop of the model driver (one JSON object per line, one answer per line). -/
partial def loop (h : IO.FS.Stream) (out : IO.FS.Stream) (st : DriverAll.DSt) : IO Unit := do
  let line ← h.getLine
  if line.isEmpty then return ()
  let (st', ans) := DriverAll.handleLine st line
  out.putStrLn ans
  loop h out st'
def main : IO Unit := do
  let out ← IO.getStdout
  loop (← IO.getStdin) out .none
  out.flush
