import Ktm.Driver
partial def loop (h : IO.FS.Stream) (st : Option Driver.St) : IO Unit := do
  let line ← h.getLine
  if line.isEmpty then return ()
  let (st', out) := Driver.handle st line
  IO.println out
  loop h st'
def main : IO Unit := do loop (← IO.getStdin) none
