#!/bin/bash
# find_base.sh <patch> : the newest commit of /repo at which the patch applies
pf=$1; wt=/tmp/vwt/findbase_$$
git -C /repo worktree add --detach $wt HEAD >/dev/null 2>&1
for c in $(git -C /repo log --format=%h); do
  git -C $wt checkout -q $c 2>/dev/null
  if git -C $wt apply --check $pf 2>/dev/null; then echo $c; break; fi
done
git -C /repo worktree remove --force $wt
