#!/venv/bin/python
"""mkcorpus.py — builds harness/corpus/<Cxx>.json from the replays the seeded changes left (seeded/*/replay_<Cxx>.json):
the scenario on which each seeded change was caught, kept only if it passes on the unchanged tree (known findings aside).
`./check` runs the corpus of a property before its random population, so those catches no longer depend on the seed."""
import collections
import glob
import importlib
import json
import os
import sys

ROOT = os.path.dirname(os.path.dirname(os.path.abspath(__file__)))
sys.path.insert(0, ROOT)
for v in ("OMP_NUM_THREADS", "OPENBLAS_NUM_THREADS", "MKL_NUM_THREADS", "TF_NUM_INTRAOP_THREADS", "TF_NUM_INTEROP_THREADS"):
    os.environ.setdefault(v, "1")
LIMIT = {"C20": 2, "C12": 4}
known = [k for k in json.load(open(os.path.join(ROOT, "known_findings.json"))) if k.get("kind") == "known"]


def is_known(v):
    return any(k["property"] == v["pid"] and all(v.get("sig", {}).get(a) == b for a, b in k.get("signature", {}).items()) for k in known)


by = collections.defaultdict(list)
for f in sorted(glob.glob(os.path.join(ROOT, "seeded", "*", "replay_C*.json"))):
    pid = os.path.basename(f)[7:10]
    src = os.path.basename(os.path.dirname(f))
    try:
        d = json.load(open(f))
    except Exception:
        continue
    for v in (d.get("violations") or [])[:1]:
        r = v.get("replay")
        if isinstance(r, dict) and "suite" in r and "piece_seed" not in r:
            r = dict(r, _from=src)
            if not any({k: x[k] for k in x if k != "_from"} == {k: r[k] for k in r if k != "_from"} for x in by[pid]):
                by[pid].append(r)
os.makedirs(os.path.join(ROOT, "harness", "corpus"), exist_ok=True)
for pid in sorted(by):
    keep = []
    for doc in by[pid]:
        if len(keep) >= LIMIT.get(pid, 7):
            break
        try:
            mod = importlib.import_module("harness.suite_" + doc["suite"])
            res = mod.replay({k: v for k, v in doc.items() if k != "_from"})
        except Exception as e:
            print(pid, doc, "not replayable:", type(e).__name__, str(e)[:80])
            continue
        bad = [v for v in res.violations if not is_known(v)]
        if bad or res.mismatches or res.errors:
            print(pid, doc.get("_from"), "fails on the unchanged tree - left out:", (bad or res.mismatches or res.errors)[0] if (bad or res.mismatches or res.errors) else "")
            continue
        keep.append(doc)
    json.dump(keep, open(os.path.join(ROOT, "harness", "corpus", f"{pid}.json"), "w"), indent=1)
    print(pid, "corpus scenarios:", len(keep))
