#!/usr/bin/env python3
"""Regenerates /verif/MANIFEST.json from harness/registry.py (one place to edit)."""
import json, os, subprocess, sys
ROOT = os.path.dirname(os.path.dirname(os.path.abspath(__file__)))
sys.path.insert(0, ROOT)
from harness import registry

ALL = [f"C{i:02d}" for i in range(1, 21)]
fix_commits = subprocess.run("git -C /repo log --format=%H --grep='^fix:' d1e11bc..HEAD", shell=True, capture_output=True, text=True).stdout.split()
checks = []
for pid in ALL:
    if pid not in registry.PROPS:
        continue
    m = registry.PROPS[pid]
    checks.append({
        "property_id": pid,
        "quick_cmd": f"./check {pid} --tier quick",
        "thorough_cmd": f"./check {pid} --tier thorough",
        "evidence_file": f"/verif/evidence/{pid}.json",
        "replay_cmd_template": f"./check {pid} --replay {{path}}",
        "engine": "lean4-model+correspondence",
        "level_claimed": {"category": "proof", "text": m["level_text"], "design_ref": m.get("design_ref", "DESIGN.md section 6")},
        "level_note": m["level_note"],
        "technique": m.get("technique", "Lean 4 theorems about a hand-written executable model (induction / invariants), model tied to /repo by a differential correspondence run of the compiled model against the implementation, direct property monitors for failing-input search"),
    })
man = {
    "version": 1,
    "setup_cmd": "cd /verif/lean && lake build Ktm ktdriver",
    "hooks": {
        "guard": "KERAS_TUNER_VERIF",
        "enable": "no source hooks: the harness instruments the implementation from outside (module attributes replaced in the harness process); the guard name is reserved and guards nothing",
        "baseline_off_cmd": "cd /repo && /venv/bin/python -m pytest -ra -q -p no:cacheprovider --timeout=900 --continue-on-collection-errors",
        "source_commits": list(reversed(fix_commits)),
        "add_only": True,
    },
    "engines": [{
        "name": "lean4-model+correspondence", "path": "/verif/lean",
        "serves_properties": [c["property_id"] for c in checks],
        "kind_free_text": "Lean 4.33 development (Ktm/*.lean: executable model + helper lemmas; Ktm/Props/Cxx.lean: property theorems) with a compiled line-protocol driver (ktdriver); Python harness (/verif/harness) drives the real keras_tuner from /repo and the driver on the same inputs",
    }],
    "checks": checks,
    "notes": "source_commits lists the unguarded `fix:` commits (repairs of genuine defects, see known_findings.json and DESIGN.md section 7); there are no hook commits.",
    "not_applicable": [{"property_id": p, "reason": registry.NOT_CLAIMED.get(p, "check not built yet in this round; see DESIGN.md section 6 for the design")} for p in ALL if p not in registry.PROPS],
}
json.dump(man, open(os.path.join(ROOT, "MANIFEST.json"), "w"), indent=1)
print("checks:", [c["property_id"] for c in checks], "not claimed:", [x["property_id"] for x in man["not_applicable"]])
