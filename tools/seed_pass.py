#!/usr/bin/env python3
"""seed_pass.py <Cxx> <A|B|...> [--src DIR] [--checks C01,C05] [--skip-tests] [--tier quick]

Confirms one seeded change and runs the property's check against it, WITHOUT touching /repo:
  * copies patch.diff / demo.py / meta.json from <src> (default /tmp/seedout/<Cxx>/<variant>) to /verif/seeded/<Cxx>-<variant>/
  * scratch worktrees of /repo's HEAD under /tmp/vwt: one clean, one with the patch applied
  * demo.py must exit 0 on the clean tree and non-zero with the patch
  * the unit tests next to the touched code (engine / tuners / distribute / the touched packages) must pass with the patch
  * KT_REPO=<patched worktree> ./check <id> for the property (and any --checks), output kept in check_<id>.txt
  * result.json: what was run and what came out; the patched worktree is removed afterwards.
"""
import argparse
import json
import os
import re
import shutil
import subprocess
import sys
import time

VERIF = os.path.dirname(os.path.dirname(os.path.abspath(__file__)))
PY = "/venv/bin/python"
NOISE = re.compile(r"I0000|^WARNING|oneDNN|cuda|E0000|computation_placer|^W0000|TF_ENABLE|rebuild TensorFlow|absl::Init")


def sh(cmd, cwd=None, env=None, timeout=3600):
    e = dict(os.environ)
    e.update({"TF_CPP_MIN_LOG_LEVEL": "3", "PYTHONDONTWRITEBYTECODE": "1"})
    if env:
        e.update(env)
    try:
        r = subprocess.run(cmd, shell=True, cwd=cwd, env=e, capture_output=True, text=True, timeout=timeout)
        return r.returncode, r.stdout + r.stderr
    except subprocess.TimeoutExpired as ex:
        return 124, f"timeout after {timeout}s\n" + ((ex.stdout or b"").decode(errors="replace") if isinstance(ex.stdout, bytes) else (ex.stdout or ""))


def clean(out):
    return "\n".join(l for l in out.splitlines() if not NOISE.search(l))


def worktree(path, base="HEAD"):
    if os.path.exists(path):
        sh(f"git -C /repo worktree remove --force {path}")
        shutil.rmtree(path, ignore_errors=True)
    rc, out = sh(f"git -C /repo worktree add --detach {path} {base}")
    if rc != 0:
        raise SystemExit(f"cannot create worktree {path}: {out}")


def main():
    ap = argparse.ArgumentParser()
    ap.add_argument("pid")
    ap.add_argument("variant")
    ap.add_argument("--src")
    ap.add_argument("--checks", default="")
    ap.add_argument("--skip-tests", action="store_true")
    ap.add_argument("--skip-demo", action="store_true")
    ap.add_argument("--skip-checks", action="store_true")
    ap.add_argument("--tier", default="quick")
    ap.add_argument("--seed", default="0")
    ap.add_argument("--touched-only", action="store_true", help="unit tests of the packages the change touches only (engine / tuners / distribute), not all three")
    ap.add_argument("--tests-only", action="store_true", help="only the unit tests, in a worktree of its own; result in unit_tests.json (merged by the next pass / seed_merge)")
    ap.add_argument("--base", default="HEAD", help="commit of /repo the change was written against (default: HEAD); used when a later "
                                                    "fix: commit removed the very window the change needs")
    a = ap.parse_args()
    name = f"{a.pid}-{a.variant}"
    src = a.src or f"/tmp/seedout/{a.pid}/{a.variant}"
    dst = os.path.join(VERIF, "seeded", name)
    os.makedirs(dst, exist_ok=True)
    for f in ("patch.diff", "demo.py", "meta.json"):
        if os.path.exists(os.path.join(src, f)) and os.path.realpath(src) != os.path.realpath(dst):
            shutil.copy(os.path.join(src, f), os.path.join(dst, f))
    result = {"seeded": name, "property": a.pid, "repo_head": sh("git -C /repo rev-parse --short HEAD")[1].strip(),
              "when": time.strftime("%Y-%m-%d %H:%M:%S")}
    rp = os.path.join(dst, "result.json")
    if os.path.exists(rp):
        try:
            old = json.load(open(rp))
            for k in ("demo_clean_exit", "demo_patched_exit", "unit_tests", "unit_tests_cmd", "confirmed"):
                if k in old:
                    result[k] = old[k]
            result["checks"] = old.get("checks", {})
        except Exception:
            pass
    result.setdefault("checks", {})
    utp = os.path.join(dst, "unit_tests.json")
    if os.path.exists(utp) and not a.tests_only:
        ut = json.load(open(utp))
        result["unit_tests"], result["unit_tests_cmd"] = ut["unit_tests"], ut["unit_tests_cmd"]
    if a.tests_only:
        a.skip_demo = a.skip_checks = True
        a.skip_tests = False
    os.makedirs("/tmp/vwt", exist_ok=True)
    head = sh(f"git -C /repo rev-parse --short {a.base}")[1].strip()
    result["base"] = head
    cleanwt = f"/tmp/vwt/clean_{head}"
    if not os.path.exists(os.path.join(cleanwt, "keras_tuner")):
        worktree(cleanwt, head)
    wt = f"/tmp/vwt/{name}" + ("_t" if a.tests_only else "")
    worktree(wt, head)
    try:
        rc, out = sh(f"git apply {os.path.join(dst, 'patch.diff')}", cwd=wt)
        if rc != 0:
            result["error"] = "patch does not apply: " + out[-400:]
            print(result["error"])
            return 2
        files = [l.split()[-1] for l in sh("git status --porcelain", cwd=wt)[1].splitlines()]
        result["files"] = files
        if not a.skip_demo:
            shutil.copy(os.path.join(dst, "demo.py"), os.path.join(cleanwt, f"demo_{name}.py"))
            shutil.copy(os.path.join(dst, "demo.py"), os.path.join(wt, "demo.py"))
            rc0, out0 = sh(f"{PY} demo_{name}.py", cwd=cleanwt, timeout=900)
            os.unlink(os.path.join(cleanwt, f"demo_{name}.py"))
            rc1, out1 = sh(f"{PY} demo.py", cwd=wt, timeout=900)
            os.unlink(os.path.join(wt, "demo.py"))
            result["demo_clean_exit"], result["demo_patched_exit"] = rc0, rc1
            open(os.path.join(dst, "demo_output.txt"), "w").write("== clean ==\n" + clean(out0)[-1500:] + "\n== patched ==\n" + clean(out1)[-2500:] + "\n")
            print(f"demo: clean exit {rc0}, patched exit {rc1}")
        if not a.skip_tests:
            dirs = set() if a.touched_only else {"keras_tuner/engine", "keras_tuner/tuners", "keras_tuner/distribute"}
            for f in files:
                d = os.path.dirname(f)
                if d.startswith("keras_tuner") and "applications" not in d:
                    # the package (engine / tuners / distribute), not only the sub-package of the file
                    dirs.add("/".join(d.split("/")[:2]) if a.touched_only and d.count("/") >= 1 else d)
            # nested dirs are covered by their parents
            dirs = sorted(d for d in dirs if not any(d != e and d.startswith(e + "/") for e in dirs))
            cmd = f"{PY} -m pytest -q -p no:cacheprovider -x --timeout=3000 " + " ".join(dirs)
            t0 = time.time()
            rc, out = sh(cmd, cwd=wt, timeout=3000)
            tail = [l for l in clean(out).splitlines() if re.search(r"passed|failed|error", l)][-1:]
            result["unit_tests_cmd"] = cmd
            result["unit_tests"] = {"exit": rc, "summary": tail[0] if tail else clean(out)[-300:], "wall_s": round(time.time() - t0)}
            print("unit tests:", result["unit_tests"])
            if a.tests_only:
                json.dump({"unit_tests": result["unit_tests"], "unit_tests_cmd": cmd, "base": head}, open(utp, "w"), indent=1)
        result["confirmed"] = bool(result.get("demo_clean_exit") == 0 and result.get("demo_patched_exit") not in (0, None)
                                   and result.get("unit_tests", {}).get("exit") == 0)
        for pid in ([] if a.skip_checks else [a.pid] + [c for c in a.checks.split(",") if c and c != a.pid]):
            t0 = time.time()
            rc, out = sh(f"./check {pid} --tier {a.tier}", cwd=VERIF, env={"KT_REPO": wt, "VERIF_SEED": a.seed}, timeout=3600)
            out = clean(out)
            open(os.path.join(dst, f"check_{pid}.txt"), "w").write(out[-6000:] + f"\nexit={rc}\n")
            vio = [l for l in out.splitlines() if l.startswith("VIOLATION")]
            first = ""
            if vio:
                ls = out.splitlines()
                i = ls.index(vio[0])
                first = ls[i + 1].strip() if i + 1 < len(ls) else ""
            result["checks"][pid] = {"exit": rc, "violation_line": vio[0] if vio else None, "first_failure": first[:300],
                                     "tier": a.tier, "seed": a.seed, "wall_s": round(time.time() - t0)}
            rpl = os.path.join(VERIF, "replays", f"{pid}-seed{a.seed}.json")
            if rc == 1 and os.path.exists(rpl):
                shutil.copy(rpl, os.path.join(dst, f"replay_{pid}.json"))
            print(f"check {pid}: exit {rc} {vio[0] if vio else ''}\n   {first[:200]}")
        result["caught_by"] = sorted(p for p, r in result["checks"].items() if r["exit"] == 1)
    finally:
        if not a.tests_only:
            json.dump(result, open(rp, "w"), indent=1)
        sh(f"git -C /repo worktree remove --force {wt}")
        shutil.rmtree(wt, ignore_errors=True)
    return 0


if __name__ == "__main__":
    sys.exit(main())
