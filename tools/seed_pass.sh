#!/bin/bash
# usage: seed_pass.sh <pid> <SEED|SEED2> <n>  : apply the seeded change to /repo, run the property's check, undo; keep outputs in /verif/seeded/<pid>-<n>/
pid=$1; sd=$2; n=$3; src=/tmp/seed_$pid/$sd; dst=/verif/seeded/$pid-$n
mkdir -p $dst && cp $src/patch.diff $src/demo.py $src/meta.json $dst/ 2>/dev/null
git -C /repo status --porcelain | grep -q . && { echo "/repo is not clean"; exit 2; }
git -C /repo apply $dst/patch.diff || { echo "patch does not apply"; exit 2; }
(cd /verif && timeout 1800 ./check $pid > $dst/check_output.txt 2>&1; echo "exit=$?" >> $dst/check_output.txt)
[ -f /verif/replays/$pid-seed0.json ] && cp /verif/replays/$pid-seed0.json $dst/replay.json
git -C /repo checkout -- .
grep -v "I0000\|^WARNING\|oneDNN" $dst/check_output.txt | tail -4
